"""Reference for the legacy brace-style patterns named in C20 ({pycalver}, {semver}, {year} {yy} {month} {dom} {doy}
{quarter} {build_no} {build} {release} {release_tag} {MAJOR} {MINOR} {PATCH}, {pep440_pycalver}).  Never imports bumpver."""
import datetime as dt
import re

COMPOSITES = {
    "pycalver": "v{year}{month}.{bid}{release}",
    "pep440_pycalver": "{year}{month}.{BID}{pep440_tag}",
    "semver": "{MAJOR}.{MINOR}.{PATCH}",
    "calver": "v{year}{month}",
    "build": ".{bid}",
    "build_no": "{bid}",
    "release_tag": "{tag}",
}
PRIM = {
    # name: (field, regex)
    "year": ("year", r"\d{4}"),
    "yy": ("year", r"\d{2}"),
    "month": ("month", r"(?:0[1-9]|1[0-2])"),
    "dom": ("dom", r"(?:0[1-9]|[12]\d|3[01])"),
    "doy": ("doy", r"(?:00[1-9]|0[1-9]\d|[12]\d\d|3[0-5]\d|36[0-6])"),
    "quarter": ("quarter", r"[1-4]"),
    "bid": ("bid", r"\d{4,}"),
    "BID": ("bid", r"[1-9]\d*"),
    "tag": ("tag", r"(?:alpha|beta|dev|rc|post|final)"),
    "release": ("tag", r"(?:-(?:alpha|beta|dev|rc|post))?"),
    "pep440_tag": ("tag", r"(?:(?:a|b|dev|rc|post)0)?"),
    "MAJOR": ("major", r"\d+"),
    "MINOR": ("minor", r"\d+"),
    "PATCH": ("patch", r"\d+"),
}
SHORT = {"alpha": "a", "beta": "b", "rc": "rc", "dev": "dev", "post": "post"}
CAL = ("year", "quarter", "month", "dom", "doy")


def expand(pattern):
    prev = None
    while prev != pattern:
        prev = pattern
        for k, v in COMPOSITES.items():
            pattern = pattern.replace("{" + k + "}", v)
    return pattern


def tokens(pattern):
    """[("lit", s) | ("part", name)]; raises KeyError for parts outside the statement."""
    out = []
    for m in re.finditer(r"\{([A-Za-z_0-9]+)\}|([^{}]+)", expand(pattern)):
        if m.group(1):
            if m.group(1) not in PRIM:
                raise KeyError(m.group(1))
            out.append(("part", m.group(1)))
        else:
            out.append(("lit", m.group(2)))
    return out


def fields(pattern):
    return [PRIM[t[1]][0] for t in tokens(pattern) if t[0] == "part"]


def part_text(name, state):
    v = state[PRIM[name][0]]
    if name == "year":
        return "%04d" % v
    if name == "yy":
        return "%02d" % (v % 100)
    if name in ("month", "dom"):
        return "%02d" % v
    if name == "doy":
        return "%03d" % v
    if name == "BID":
        return str(int(v))
    if name == "release":
        return "" if v == "final" else "-" + v
    if name == "pep440_tag":
        return "" if v == "final" else SHORT[v] + "0"
    return str(v)


def render(pattern, state):
    return "".join(t[1] if t[0] == "lit" else part_text(t[1], state) for t in tokens(pattern))


def recognise(pattern, text):
    rx, names = [], []
    for t in tokens(pattern):
        if t[0] == "lit":
            rx.append(re.escape(t[1]))
        else:
            names.append(t[1])
            rx.append(f"(?P<g{len(names)}>{PRIM[t[1]][1]})")
    m = re.fullmatch("".join(rx), text)
    if not m:
        return None
    state = {}
    for i, name in enumerate(names, 1):
        raw = m.group(f"g{i}")
        f = PRIM[name][0]
        if name == "release":
            val = raw[1:] if raw else "final"
        elif name == "pep440_tag":
            val = {v: k for k, v in SHORT.items()}[raw[:-1]] if raw else "final"
        elif f in ("bid", "tag"):
            val = raw
        else:
            val = int(raw)
            if name == "yy":
                val += 2000
        if f in state and state[f] != val:
            return None
        state[f] = val
    return state


def cal_from_date(d: dt.date):
    return {"year": d.year, "quarter": (d.month - 1) // 3 + 1, "month": d.month, "dom": d.day, "doy": (d - dt.date(d.year, 1, 1)).days + 1}


def next_id(bid):
    head, tail = bid[0], bid[1:]
    if all(c == "9" for c in tail):
        d = int(head) + 1
        if d > 9:
            return None
        return str(d) * 2 + "0" * len(tail)
    return str(int(bid) + 1).zfill(len(bid))


def bump(pattern, state, ev):
    """ev: major, minor, patch, tag, pin_date, date.  -> ("ok", new_state) | ("none", reason)"""
    fs = fields(pattern)
    new = dict(state)
    if not ev.get("pin_date"):
        cal = cal_from_date(ev["date"])
        tracked = [f for f in CAL if f in fs]
        if tracked and not (tuple(state[f] for f in tracked) > tuple(cal[f] for f in tracked)):
            for f in tracked:
                new[f] = cal[f]
    if "bid" in fs:
        nb = next_id(state["bid"])
        if nb is None:
            return ("none", "build-maximum")
        new["bid"] = nb
    if ev.get("major") and "major" in fs:
        new["major"] += 1
        if "minor" in fs:
            new["minor"] = 0
        if "patch" in fs:
            new["patch"] = 0
    if ev.get("minor") and "minor" in fs:
        new["minor"] += 1
        if "patch" in fs:
            new["patch"] = 0
    if ev.get("patch") and "patch" in fs:
        new["patch"] += 1
    if ev.get("tag") and "tag" in fs:
        new["tag"] = ev["tag"]
    if new == state:
        return ("none", "unchanged")
    return ("ok", new)
