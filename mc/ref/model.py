"""Reference model of the v2 pattern language, written from README.md ("Part Overview", the bump
examples, "Normalization Caveats") and the property statements - deliberately boring, and it never
imports bumpver.

  pattern text  --parse_pattern-->  tree:  [("lit", s) | ("part", NAME) | ("group", tree), ...]
  tree + state  --render-->         text   (an optional group is omitted iff all parts below it are zero)
  tree + text   --recognise-->      state  (anchored full match, None if the text is not a version of it)
  tree + state + event --bump-->    ("ok", state') | ("none", reason)
A state is a dict field -> value holding only the fields of parts that occur in the pattern.
"""
import datetime as dt
import re

# --------------------------------------------------------------------------------------------------
# part table: NAME -> (field, regex for the documented range, kind)

PARTS = {
    "MAJOR": ("major", r"[0-9]+", "num"),
    "MINOR": ("minor", r"[0-9]+", "num"),
    "PATCH": ("patch", r"[0-9]+", "num"),
    "NUM": ("num", r"[0-9]+", "num"),
    "INC0": ("inc0", r"[0-9]+", "num"),
    "INC1": ("inc1", r"[1-9][0-9]*", "num"),
    "BUILD": ("bid", r"[0-9]+", "bid"),
    "BLD": ("bid", r"[1-9][0-9]*", "bid"),
    "TAG": ("tag", r"preview|final|alpha|beta|post|dev|rc", "tag"),
    "PYTAG": ("tag", r"post|dev|rc|a|b", "tag"),
    "YYYY": ("year", r"[1-9][0-9]{3}", "cal"),
    "YY": ("year", r"[1-9][0-9]?", "cal"),  # 2001..2099 -> 1..99 (README: int(strftime('%y')))
    "0Y": ("year", r"[0-9]{2}", "cal"),
    "GGGG": ("year_g", r"[1-9][0-9]{3}", "cal"),
    "GG": ("year_g", r"[1-9][0-9]?", "cal"),
    "0G": ("year_g", r"[0-9]{2}", "cal"),
    "Q": ("quarter", r"[1-4]", "cal"),
    "MM": ("month", r"1[0-2]|[1-9]", "cal"),
    "0M": ("month", r"1[0-2]|0[1-9]", "cal"),
    "DD": ("dom", r"3[01]|[12][0-9]|[1-9]", "cal"),
    "0D": ("dom", r"3[01]|[12][0-9]|0[1-9]", "cal"),
    "JJJ": ("doy", r"36[0-6]|3[0-5][0-9]|[12][0-9][0-9]|[1-9][0-9]|[1-9]", "cal"),
    "00J": ("doy", r"36[0-6]|3[0-5][0-9]|[12][0-9][0-9]|0[1-9][0-9]|00[1-9]", "cal"),
    # README: WW/UU range 0..52 (strftime can give 53: recorded as finding D1)
    "WW": ("week_w", r"5[0-2]|[1-4][0-9]|[0-9]", "cal"),
    "0W": ("week_w", r"5[0-2]|[0-4][0-9]", "cal"),
    "UU": ("week_u", r"5[0-2]|[1-4][0-9]|[0-9]", "cal"),
    "0U": ("week_u", r"5[0-2]|[0-4][0-9]", "cal"),
    "VV": ("week_v", r"5[0-3]|[1-4][0-9]|[1-9]", "cal"),
    "0V": ("week_v", r"5[0-3]|[1-4][0-9]|0[1-9]", "cal"),
}
PART_NAMES = sorted(PARTS, key=lambda n: (-len(n), n))
CAL_FIELDS = ("year", "year_g", "quarter", "month", "week_w", "week_u", "week_v", "dom", "doy")
# significance order used to decide whether one calendar state is later than another
CAL_SIGNIFICANCE = ("year", "year_g", "quarter", "month", "week_w", "week_u", "week_v", "dom", "doy")
RESET_VALUES = {"major": 0, "minor": 0, "patch": 0, "num": 0, "inc0": 0, "inc1": 1}
TAGS = ("final", "alpha", "beta", "rc", "dev", "post")
PYTAG = {"final": "", "alpha": "a", "beta": "b", "rc": "rc", "dev": "dev", "post": "post", "preview": "rc"}
TAG_OF_PYTAG = {"": "final", "a": "alpha", "b": "beta", "rc": "rc", "dev": "dev", "post": "post"}

# --------------------------------------------------------------------------------------------------
# pattern text -> tree


class PatternSyntaxError(Exception):
    pass


def tokenize(text, right_to_left=False):
    """Flat token list [("lit", s) | ("part", NAME) | ("open",) | ("close",)] by longest match."""
    toks = []
    if not right_to_left:
        i = 0
        while i < len(text):
            if text.startswith("\\[", i) or text.startswith("\\]", i):
                toks.append(("lit", text[i + 1]))
                i += 2
                continue
            c = text[i]
            if c == "[":
                toks.append(("open",))
                i += 1
                continue
            if c == "]":
                toks.append(("close",))
                i += 1
                continue
            for name in PART_NAMES:
                if text.startswith(name, i):
                    toks.append(("part", name))
                    i += len(name)
                    break
            else:
                toks.append(("lit", c))
                i += 1
    else:
        j = len(text)
        while j > 0:
            c = text[j - 1]
            if c in "[]" and j >= 2 and text[j - 2] == "\\":
                toks.append(("lit", c))
                j -= 2
                continue
            if c == "[":
                toks.append(("open",))
                j -= 1
                continue
            if c == "]":
                toks.append(("close",))
                j -= 1
                continue
            for name in PART_NAMES:
                if j >= len(name) and text[j - len(name) : j] == name:
                    toks.append(("part", name))
                    j -= len(name)
                    break
            else:
                toks.append(("lit", c))
                j -= 1
        toks.reverse()
    # merge adjacent literals
    out = []
    for t in toks:
        if t[0] == "lit" and out and out[-1][0] == "lit":
            out[-1] = ("lit", out[-1][1] + t[1])
        else:
            out.append(t)
    return out


def parse_pattern(text, right_to_left=False):
    stack = [[]]
    for t in tokenize(text, right_to_left):
        if t[0] == "open":
            stack.append([])
        elif t[0] == "close":
            if len(stack) == 1:
                raise PatternSyntaxError("unbalanced ]")
            g = stack.pop()
            stack[-1].append(("group", g))
        else:
            stack[-1].append(t)
    if len(stack) != 1:
        raise PatternSyntaxError("unclosed [")
    return stack[0]


def tree_text(tree):
    out = []
    for it in tree:
        if it[0] == "lit":
            out.append(it[1].replace("[", "\\[").replace("]", "\\]"))
        elif it[0] == "part":
            out.append(it[1])
        else:
            out.append("[" + tree_text(it[1]) + "]")
    return "".join(out)


def parts_in_order(tree):
    out = []
    for it in tree:
        if it[0] == "part":
            out.append(it[1])
        elif it[0] == "group":
            out.extend(parts_in_order(it[1]))
    return out


def fields_in_order(tree):
    return [PARTS[p][0] for p in parts_in_order(tree)]


# --------------------------------------------------------------------------------------------------
# calendar


def cal_from_date(d: dt.date):
    """All calendar fields of a date, computed without strftime."""
    yday0 = (d - dt.date(d.year, 1, 1)).days
    wday_sun0 = (d.weekday() + 1) % 7  # Sunday = 0
    iso = d.isocalendar()
    return {
        "year": d.year,
        "year_g": iso[0],
        "quarter": (d.month - 1) // 3 + 1,
        "month": d.month,
        "dom": d.day,
        "doy": yday0 + 1,
        "week_w": (yday0 + 7 - ((wday_sun0 + 6) % 7)) // 7,  # Monday first, days before the first Monday: week 0
        "week_u": (yday0 + 7 - wday_sun0) // 7,  # Sunday first
        "week_v": iso[1],
    }


# --------------------------------------------------------------------------------------------------
# render / recognise


def part_text(name, state):
    field = PARTS[name][0]
    v = state[field]
    if name in ("YYYY", "GGGG"):
        return str(v)
    if name in ("YY", "GG"):
        return str(v % 100)
    if name in ("0Y", "0G"):
        return "%02d" % (v % 100)
    if name in ("0M", "0D", "0W", "0U", "0V"):
        return "%02d" % v
    if name == "00J":
        return "%03d" % v
    if name == "BUILD":
        return v
    if name == "BLD":
        return str(int(v))
    if name == "TAG":
        return v
    if name == "PYTAG":
        return PYTAG[v]
    return str(v)


def is_zero(name, state):
    field = PARTS[name][0]
    v = state[field]
    if name in ("MAJOR", "MINOR", "PATCH", "NUM", "INC0"):
        return v == 0
    if name in ("TAG", "PYTAG"):
        return v == "final"
    return False  # INC1, BUILD/BLD and calendar parts are never "zero"


def _all_zero(tree, state):
    """True iff the subtree has at least one part and all its parts (recursively) are zero."""
    names = parts_in_order(tree)
    return bool(names) and all(is_zero(n, state) for n in names)


def render(tree, state, top=True):
    out = []
    for it in tree:
        if it[0] == "lit":
            out.append(it[1])
        elif it[0] == "part":
            out.append(part_text(it[1], state))
        else:
            if not _all_zero(it[1], state):
                out.append(render(it[1], state, top=False))
    return "".join(out)


def _regex(tree, counter):
    out = []
    for it in tree:
        if it[0] == "lit":
            out.append(re.escape(it[1]))
        elif it[0] == "part":
            counter[0] += 1
            out.append(f"(?P<p{counter[0]}_{it[1].replace('0', 'z')}>{PARTS[it[1]][1]})")
        else:
            out.append("(?:" + _regex(it[1], counter) + ")?")
    return "".join(out)


_RX_CACHE = {}


def compiled(tree):
    key = tree_text(tree)
    rx = _RX_CACHE.get(key)
    if rx is None:
        rx = _RX_CACHE[key] = re.compile(_regex(tree, [0]))
    return rx


def recognise(tree, text):
    """-> state dict (only fields of parts in the pattern) or None."""
    m = compiled(tree).fullmatch(text)
    if m is None:
        return None
    state = {}
    names = parts_in_order(tree)
    for i, name in enumerate(names, 1):
        raw = m.group(f"p{i}_{name.replace('0', 'z')}")
        field, _rx, kind = PARTS[name]
        if raw is None:  # part inside an omitted optional group: its zero value
            if name in ("TAG", "PYTAG"):
                val = "final"
            elif name == "INC1":
                val = 1
            elif kind == "num":
                val = 0
            else:
                return None
        elif name == "TAG":
            val = raw  # ("preview" is an accepted spelling of its own: it is carried over like any other tag, and reads as rc under PEP 440)
        elif name == "PYTAG":
            val = TAG_OF_PYTAG[raw]
        elif kind == "bid":
            val = raw
        else:
            val = int(raw)
            if name in ("YY", "0Y", "GG", "0G"):
                val += 2000
        if field in state and state[field] != val and not (field == "tag"):
            return None
        state[field] = val
    return state


def possible_date(state):
    """False if the calendar fields of a recognised state cannot belong to any date."""
    try:
        if "year" in state and "doy" in state:
            d = dt.date(state["year"], 1, 1) + dt.timedelta(days=state["doy"] - 1)
            if d.year != state["year"]:
                return False
        if "year" in state and "month" in state and "dom" in state:
            dt.date(state["year"], state["month"], state["dom"])
        if "year_g" in state and "week_v" in state:
            dt.date.fromisocalendar(state["year_g"], state["week_v"], 1)
    except ValueError:
        return False
    return True


# --------------------------------------------------------------------------------------------------
# bump


def next_build(bid: str):
    """BUILD successor (README: 1001, 1002 .. 1999, 22000; ids below 1000 are padded first)."""
    if int(bid) < 1000:
        bid = str(int(bid) + 1000)
    head, tail = bid[0], bid[1:]
    if all(c == "9" for c in tail):
        d = int(head) + 1
        if d > 9:
            return None  # documented maximum reached
        return str(d) * 2 + "0" * len(tail)
    return str(int(bid) + 1).zfill(len(bid))


class Event(dict):
    """major, minor, patch, tag (None or name), tag_num, pin_date, pin_increments, date (datetime.date)"""


def cal_key(state):
    return tuple(state[f] for f in CAL_SIGNIFICANCE if f in state)


def bump(tree, state, ev):
    """The README rules.  -> ("ok", new_state) or ("none", reason)."""
    names = parts_in_order(tree)
    fields = [PARTS[n][0] for n in names]
    present = set(fields)
    for flag, part in (("major", "MAJOR"), ("minor", "MINOR"), ("patch", "PATCH")):
        if ev.get(flag) and part not in names:
            return ("none", "flag-not-applicable")
    cur_tag = state.get("tag", "final")
    if ev.get("tag_num") and not ev.get("tag") and cur_tag == "final":
        return ("none", "tag-num-without-tag")
    new = dict(state)
    # calendar: from the date unless pinned; never backwards
    if not ev.get("pin_date"):
        cal = cal_from_date(ev["date"])
        tracked = {f: cal[f] for f in CAL_FIELDS if f in present}
        if tracked and not (cal_key(state) > tuple(tracked[f] for f in CAL_SIGNIFICANCE if f in tracked)):
            new.update(tracked)
    # flag driven increments
    for flag, field in (("major", "major"), ("minor", "minor"), ("patch", "patch")):
        if ev.get(flag):
            new[field] += 1
    if ev.get("tag_num") and "num" in present:
        new["num"] += 1
    if ev.get("tag") and "tag" in present:
        if ev["tag"] != cur_tag and "num" in present:
            new["num"] = 0
        new["tag"] = ev["tag"]
    if not ev.get("pin_increments"):
        if "inc0" in present:
            new["inc0"] += 1
        if "inc1" in present:
            new["inc1"] += 1
    if "bid" in present:
        nb = next_build(state["bid"])
        if nb is None:
            return ("none", "build-maximum")
        new["bid"] = nb
    # reset: walking the parts left to right, every resettable part right of a changed part is reset
    changed = False
    for field in fields:
        if changed and field in RESET_VALUES:
            new[field] = RESET_VALUES[field]
        elif new[field] != state[field]:
            changed = True
    if new == state:
        return ("none", "unchanged")
    return ("ok", new)
