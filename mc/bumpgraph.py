"""Shared engine of the bump-graph checks (C01, C05, C02c): the transition system
   state = (pattern, version text), event = flag set + date, transition = the real `bumpver test` body."""
import datetime as dt
import itertools

import packaging.version as pv

import bumpver.version as bvversion

from . import grammar, world
from .ref import model as M

FAR_TODAY = dt.date(2033, 3, 3)  # what bumpver would take as "today" if it ignored --date / --pin-date

DATEKINDS = ("pin", "same", "+1d", "next-month", "next-year", "-1d", "-100d", "-400d")
TAG_CHOICES = (None,) + M.TAGS


def event_space(has_cal, tags=TAG_CHOICES):
    """All flag combinations x tag choices x date kinds (date kinds collapse for date-free patterns)."""
    kinds = DATEKINDS if has_cal else ("pin", "same")
    out = []
    for major, minor, patch, tag_num, pin_inc in itertools.product((False, True), repeat=5):
        for tag in tags:
            for k in kinds:
                out.append((major, minor, patch, tag, tag_num, pin_inc, k))
    return out


def event_date(kind, base: dt.date):
    if kind == "pin":
        return None
    if kind == "same":
        return base
    if kind == "+1d":
        return base + dt.timedelta(days=1)
    if kind == "-1d":
        return base - dt.timedelta(days=1)
    if kind == "-400d":
        return base - dt.timedelta(days=400)
    if kind == "-100d":
        return base - dt.timedelta(days=100)
    if kind == "next-month":
        return dt.date(base.year + (base.month == 12), base.month % 12 + 1, 1)
    if kind == "next-year":
        return dt.date(base.year + 1, 1, 1)
    raise KeyError(kind)


def ref_event(ev, base):
    major, minor, patch, tag, tag_num, pin_inc, kind = ev
    d = event_date(kind, base)
    return {
        "major": major, "minor": minor, "patch": patch, "tag": tag, "tag_num": tag_num,
        "pin_increments": pin_inc, "pin_date": kind == "pin", "date": d,
    }


_USE_ARGV = [False]


def impl_test(pattern_text, old_text, rev, set_version=None):
    """The real `bumpver test` command body (through click's argv parsing if the body's signature was refactored)."""
    if _USE_ARGV[0]:
        args = cli_args(rev, set_version)
        return world.cli("test", *args, "--", old_text, pattern_text)
    o = _impl_test_callback(pattern_text, old_text, rev, set_version)
    if o.crashed and o.crashed.startswith("TypeError") and "argument" in o.crashed:
        _USE_ARGV[0] = True
        return impl_test(pattern_text, old_text, rev, set_version)
    return o


def _impl_test_callback(pattern_text, old_text, rev, set_version=None):
    return world.callback(
        "test",
        old_version=old_text,
        pattern=pattern_text,
        major=rev["major"], minor=rev["minor"], patch=rev["patch"], tag=rev["tag"], tag_num=rev["tag_num"],
        pin_increments=rev["pin_increments"], pin_date=rev["pin_date"],
        date=None if rev["date"] is None else rev["date"].isoformat(),
        set_version=set_version,
    )


def cli_args(rev, set_version=None):
    args = []
    for flag in ("major", "minor", "patch"):
        if rev[flag]:
            args.append("--" + flag)
    if rev["tag"]:
        args += ["--tag", rev["tag"]]
    if rev["tag_num"]:
        args.append("--tag-num")
    if rev["pin_increments"]:
        args.append("--pin-increments")
    if rev["pin_date"]:
        args.append("--pin-date")
    if rev["date"] is not None:
        args += ["--date", rev["date"].isoformat()]
    if set_version is not None:
        args += ["--set-version", set_version]
    return args


def is_pep440(s):
    try:
        pv.Version(s)
        return True
    except pv.InvalidVersion:
        return False


def greater(new, old):
    """Strictly greater under PEP 440 (packaging) when both are PEP 440 strings, else under bumpver's key (C16)."""
    if is_pep440(new) and is_pep440(old):
        return pv.Version(new) > pv.Version(old)
    return bvversion.parse_version(new) > bvversion.parse_version(old)


def expected(pat, state, old_text, rev):
    """Reference verdict: ("ok", text, new_state) | ("none", reason) | ("unspecified", reason)."""
    eff_tag = rev["tag"] if (rev["tag"] and "tag" in pat.fields) else state.get("tag", "final")
    if rev["tag_num"] and "num" in pat.fields and eff_tag == "final":
        # (final, NUM>0) is not a state of the documented scheme; README gives no rule for it
        if not (rev["tag"] is None and state.get("tag", "final") == "final"):
            return ("unspecified", "tag-num on a final version")
    res = M.bump(pat.tree, state, rev)
    if res[0] == "none":
        return res
    new_state = res[1]
    text = M.render(pat.tree, new_state)
    if text == old_text:
        return ("none", "unchanged-text")
    if M.recognise(pat.tree, text) != new_state:
        return ("none", "result-not-representable")
    if not greater(text, old_text):
        return ("none", "not-greater")
    return ("ok", text, new_state)


def flags_key(rev, base):
    on = [k for k in ("major", "minor", "patch", "tag_num", "pin_increments", "pin_date") if rev[k]]
    if rev["tag"]:
        on.append("tag")
    if rev["date"] is not None:
        on.append("date=" + ("same" if rev["date"] == base else "later" if rev["date"] > base else "earlier"))
    return "+".join(on) or "default"


def diff_fields(a, b):
    return "+".join(sorted(k for k in set(a) | set(b) if a.get(k) != b.get(k)))


def first_diff(pat, a, b):
    """Leftmost part (in pattern order) whose value differs: names the rule that was broken."""
    for f in pat.fields:
        if a.get(f) != b.get(f):
            return f
    return "none"


def mode_key(rev, base):
    """Only the mode of the run (pinning / date relation), so that signatures name a rule, not an input."""
    on = [k for k in ("pin_increments", "pin_date") if rev[k]]
    if rev["date"] is not None:
        on.append("date=" + ("same" if rev["date"] == base else "later" if rev["date"] > base else "earlier"))
    return "+".join(on) or "default"
