"""Aggregated, mergeable result of exploring a set of cases.

Workers return one Stats per chunk; the runner merges them.  Every number in the
evidence comes out of an instance of this class - nothing is a constant.
"""
import collections
import hashlib
import json


def _jsonable(x):
    if isinstance(x, (str, int, float, bool)) or x is None:
        return x
    if isinstance(x, bytes):
        try:
            return x.decode("utf-8")
        except UnicodeDecodeError:
            return {"hex": x.hex()}
    if isinstance(x, dict):
        return {str(k): _jsonable(v) for k, v in x.items()}
    if isinstance(x, (list, tuple, set, frozenset)):
        seq = list(x)
        if isinstance(x, (set, frozenset)):
            seq = sorted(seq, key=repr)
        return [_jsonable(v) for v in seq]
    return repr(x)


def h64(*parts) -> int:
    """Stable 64-bit hash of a canonical state description."""
    m = hashlib.blake2b(digest_size=8)
    for p in parts:
        m.update(repr(p).encode("utf-8", "surrogatepass"))
        m.update(b"\0")
    return int.from_bytes(m.digest(), "big")


class Stats:
    MAX_SAMPLES = 6

    def __init__(self):
        self.evaluations = 0  # executions of the real code
        self.transitions = 0  # executed transitions of the explored system
        self.validated = 0  # executions compared against an oracle
        self.states = set()  # 64-bit hashes of canonical states
        self.states_by_construction = 0  # states that are distinct by construction (counted, not hashed)
        self.nontrivial = set()  # hashes of distinct non-trivial cases (rule per check)
        self.outcomes = collections.Counter()  # observed outcome classes
        self.counters = collections.Counter()  # misc measured counts (filtered, out of scope..)
        self.violations = {}  # signature -> dict(count, case, detail)
        self.samples = []
        self.caps = []  # caps hit (a run with caps is not exhaustive)
        self._dig = b""

    # -- recording -------------------------------------------------------------
    def observe(self, obs):
        """Feed a full observation tuple into the determinism digest."""
        self._mix(repr(obs).encode("utf-8", "surrogatepass"))

    def state(self, *parts):
        self.states.add(h64(*parts))

    def nontriv(self, *parts):
        self.nontrivial.add(h64(*parts))

    def sample(self, s):
        if len(self.samples) < self.MAX_SAMPLES:
            self.samples.append(_jsonable(s))

    def violation(self, signature, case, detail):
        v = self.violations.get(signature)
        case = _jsonable(case)
        detail = _jsonable(detail)
        key = (len(json.dumps(case)), json.dumps(case, sort_keys=True))
        if v is None:
            self.violations[signature] = {"count": 1, "case": case, "detail": detail, "_key": key}
        else:
            v["count"] += 1
            if key < v["_key"]:
                v.update(case=case, detail=detail, _key=key)

    def _mix(self, data: bytes):
        self._dig = hashlib.blake2b(self._dig + data, digest_size=16).digest()

    @property
    def digest(self):
        return self._dig.hex()

    # -- merging ---------------------------------------------------------------
    def merge(self, other: "Stats"):
        self.evaluations += other.evaluations
        self.transitions += other.transitions
        self.validated += other.validated
        self.states |= other.states
        self.states_by_construction += other.states_by_construction
        self.nontrivial |= other.nontrivial
        self.outcomes.update(other.outcomes)
        self.counters.update(other.counters)
        for sig, v in other.violations.items():
            mine = self.violations.get(sig)
            if mine is None:
                self.violations[sig] = dict(v)
            else:
                mine["count"] += v["count"]
                if tuple(v["_key"]) < tuple(mine["_key"]):
                    mine.update(case=v["case"], detail=v["detail"], _key=v["_key"])
        for s in other.samples:
            if len(self.samples) < self.MAX_SAMPLES:
                self.samples.append(s)
        self.caps.extend(other.caps)
        self._mix(other.digest.encode())
        return self
