"""known_findings.json matcher and replay files.

known_findings.json (committed, never written at run time) is a list of
  {"property": "C02", "signature": "<exact signature or fnmatch pattern>", "what": "...",
   "status": "known" | "fixed", "commit": "<sha, for fixed>"}
Only status == "known" suppresses an alarm; "fixed" entries are documentation and suppress nothing.
"""
import fnmatch
import hashlib
import json
import os

ROOT = os.path.dirname(os.path.dirname(os.path.abspath(__file__)))
PATH = os.path.join(ROOT, "known_findings.json")


def load():
    if not os.path.exists(PATH):
        return []
    with open(PATH) as f:
        return json.load(f)


def classify(pid, violations):
    """-> (new: {sig: v}, known: [(entry, v)])"""
    entries = [e for e in load() if e.get("property") == pid and e.get("status") == "known"]
    new, known = {}, []
    for sig in sorted(violations):
        v = violations[sig]
        for e in entries:
            if sig == e["signature"] or fnmatch.fnmatchcase(sig, e["signature"]):
                known.append((e, v))
                break
        else:
            new[sig] = v
    return new, known


def write_replays(pid, new):
    out = []
    d = os.path.join(ROOT, "replays")
    os.makedirs(d, exist_ok=True)
    for sig in sorted(new):
        v = new[sig]
        h = hashlib.sha1(sig.encode()).hexdigest()[:10]
        path = os.path.join(d, f"{pid}-{h}.json")
        with open(path, "w") as f:
            json.dump(
                {"property": pid, "signature": sig, "case": v["case"], "detail": v["detail"], "count": v["count"]},
                f,
                indent=1,
                sort_keys=True,
            )
        out.append((sig, os.path.relpath(path, ROOT)))
    return out
