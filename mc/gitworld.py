"""Real-git scratch repositories (deterministic environment is set by mc/run.py)."""
import os
import shutil
import subprocess as sp


def git(*args, cwd=".", check=True):
    r = sp.run(["git"] + list(args), cwd=cwd, stdout=sp.PIPE, stderr=sp.PIPE)
    if check and r.returncode != 0:
        raise RuntimeError(f"git {' '.join(args)} failed: {r.stderr.decode('utf-8', 'replace')}")
    return r.stdout.decode("utf-8", "replace")


def init(cwd=".", separate=False):
    """separate=True: the repository data lives outside the work tree and `.git` is a FILE (`gitdir: ...`), as in linked work trees,
    submodules and `git init --separate-git-dir`."""
    if separate:
        store = os.path.abspath(cwd).rstrip("/") + ".gitstore"
        if os.path.exists(store):
            shutil.rmtree(store)
        git("init", "-q", "-b", "main", "--separate-git-dir=" + store, cwd=cwd)
        assert os.path.isfile(os.path.join(cwd, ".git"))
        # a relative gitfile, so that a snapshot of work tree + store is a repository of its own
        with open(os.path.join(cwd, ".git"), "w") as f:
            f.write("gitdir: ../" + os.path.basename(store) + "\n")
    else:
        git("init", "-q", "-b", "main", cwd=cwd)
    git("config", "user.name", "mc", cwd=cwd)
    git("config", "user.email", "mc@example.invalid", cwd=cwd)
    git("config", "core.quotepath", "true", cwd=cwd)
    git("config", "commit.gpgsign", "false", cwd=cwd)
    git("config", "tag.gpgsign", "false", cwd=cwd)


def commit_all(msg, cwd="."):
    git("add", "-A", cwd=cwd)
    git("commit", "-q", "--allow-empty", "-m", msg, cwd=cwd)


def head(cwd="."):
    return git("rev-parse", "HEAD", cwd=cwd).strip()


def state(cwd="."):
    """Canonical repository state: HEAD, branch heads, tags, index status, current branch."""
    return {
        "head": head(cwd),
        "branch": git("rev-parse", "--abbrev-ref", "HEAD", cwd=cwd).strip(),
        "branches": sorted(git("for-each-ref", "--format=%(refname:short) %(objectname)", "refs/heads", cwd=cwd).splitlines()),
        "tags": sorted(git("for-each-ref", "--format=%(refname:short) %(*objectname)%(objectname)", "refs/tags", cwd=cwd).splitlines()),
        "status": git("status", "--porcelain", cwd=cwd).splitlines(),
    }


def snapshot(src, dst):
    if os.path.exists(dst):
        shutil.rmtree(dst)
    shutil.copytree(src, dst, symlinks=True)
    src_store, dst_store = os.path.abspath(src).rstrip("/") + ".gitstore", os.path.abspath(dst).rstrip("/") + ".gitstore"
    if os.path.exists(dst_store):
        shutil.rmtree(dst_store)
    if os.path.isdir(src_store):
        # separate git dir (`.git` is a file): copy the store and point the copy's gitfile at it
        shutil.copytree(src_store, dst_store, symlinks=True)
        with open(os.path.join(dst, ".git"), "w") as f:
            f.write("gitdir: ../" + os.path.basename(dst_store) + "\n")


def commit_files(rev="HEAD", cwd="."):
    return sorted(l for l in git("show", "--name-only", "-z", "--format=", rev, cwd=cwd).split("\0") if l.strip("\n"))
