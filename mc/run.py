"""Entry point: python -m mc.run <ID> --tier quick|thorough [--replay FILE]

Exit 0: property held on everything explored (known findings are printed, not alarms)
Exit 1: at least one violation that known_findings.json does not list (VIOLATION line)
Exit 2: the harness itself is broken (never reported as a violation)
"""
import argparse
import importlib
import json
import os
import sys
import time
import traceback

ROOT = os.path.dirname(os.path.dirname(os.path.abspath(__file__)))


def _reexec_with_fixed_env():
    want = {"PYTHONHASHSEED": "0", "PYTHONDONTWRITEBYTECODE": "1"}
    if all(os.environ.get(k) == v for k, v in want.items()):
        return
    env = dict(os.environ, **want)
    os.execve(sys.executable, [sys.executable, "-m", "mc.run"] + sys.argv[1:], env)


def main():
    ap = argparse.ArgumentParser()
    ap.add_argument("id")
    ap.add_argument("--tier", default=os.environ.get("VERIF_TIER", "quick"), choices=["quick", "thorough"])
    ap.add_argument("--replay", default=None)
    ap.add_argument("--jobs", type=int, default=0)
    args = ap.parse_args()
    os.chdir(ROOT)
    _reexec_with_fixed_env()
    if args.jobs:
        os.environ["VERIF_JOBS"] = str(args.jobs)

    src = os.environ.get("BUMPVER_SRC", "/repo/src")
    sys.path.insert(0, src)
    # deterministic, remote-free, user-config-free git for every child process
    os.environ.update(
        GIT_CONFIG_GLOBAL="/dev/null",
        GIT_CONFIG_SYSTEM="/dev/null",
        GIT_CONFIG_NOSYSTEM="1",
        GIT_AUTHOR_NAME="mc",
        GIT_AUTHOR_EMAIL="mc@example.invalid",
        GIT_COMMITTER_NAME="mc",
        GIT_COMMITTER_EMAIL="mc@example.invalid",
        GIT_AUTHOR_DATE="2030-01-01T00:00:00+0000",
        GIT_COMMITTER_DATE="2030-01-01T00:00:00+0000",
        GIT_TERMINAL_PROMPT="0",
        LC_ALL="C.UTF-8",
        LANG="C.UTF-8",
        TZ="UTC",
    )
    os.environ.pop("PYTHONPATH", None)

    from . import evidence, findings, pool
    from .pool import HarnessError

    try:
        seed = int(os.environ.get("VERIF_SEED", "0"))
    except ValueError:
        seed = 0
    pid = args.id.upper()
    t0 = time.time()
    try:
        pool.sweep_stale()
        from . import world

        world.assert_impl_location()
        mod = importlib.import_module(f"mc.checks.{pid.lower()}")
        if args.replay:
            return _replay(mod, pid, args.replay, findings)
        st = mod.explore(args.tier, seed)
        mins = getattr(mod, "MIN_OUTCOMES", 2)
        if len(st.outcomes) < mins and not st.violations:
            raise HarnessError(
                f"vacuous exploration: only {len(st.outcomes)} distinct outcomes (< {mins}): {dict(st.outcomes)}"
            )
    except HarnessError as ex:
        print(f"HARNESS-ERROR property={pid} {ex}")
        return 2
    except Exception:
        traceback.print_exc()
        print(f"HARNESS-ERROR property={pid} unexpected exception in the machinery")
        return 2

    wall = time.time() - t0
    new, known = findings.classify(pid, st.violations)
    paths = findings.write_replays(pid, new)
    evidence.write(mod, pid, args.tier, seed, st, wall, n_new=len(new), known=known)
    print(
        f"{pid} tier={args.tier} seed={seed} evaluations={st.evaluations} states={len(st.states) + st.states_by_construction} "
        f"transitions={st.transitions} validated={st.validated} outcomes={len(st.outcomes)} "
        f"wall={wall:.1f}s src={world.src_fingerprint()}"
    )
    for name, n in sorted(st.outcomes.items(), key=lambda kv: -kv[1])[:12]:
        print(f"  outcome {name}: {n}")
    for entry, v in known:
        print(f"KNOWN-FINDING: property={pid} {entry['what']} [{v['count']} cases, e.g. {json.dumps(v['case'])[:160]}]")
    for sig, path in paths:
        v = st.violations[sig]
        print(f"  violation {sig}: {v['count']} cases, e.g. {json.dumps(v['case'])[:300]}")
        print(f"    detail: {json.dumps(v['detail'])[:400]}")
        print(f"VIOLATION property={pid} replay={path}")
    return 1 if new else 0


def _replay(mod, pid, path, findings):
    with open(path) as f:
        rec = json.load(f)
    from .stats import Stats

    runs = []
    for _ in range(2):
        st = Stats()
        mod.replay(rec["case"], st)
        runs.append(st)
    if runs[0].digest != runs[1].digest or set(runs[0].violations) != set(runs[1].violations):
        print(f"HARNESS-ERROR property={pid} replay is not deterministic")
        return 2
    st = runs[0]
    if rec["signature"] in st.violations or st.violations:
        for sig, v in st.violations.items():
            print(f"  replayed violation {sig}: {json.dumps(v['detail'])[:600]}")
        new, known = findings.classify(pid, st.violations)
        for entry, v in known:
            print(f"KNOWN-FINDING: property={pid} {entry['what']}")
        if new:
            print(f"VIOLATION property={pid} replay={path}")
            return 1
        return 0
    print(f"{pid}: replayed case satisfies the property")
    return 0


if __name__ == "__main__":
    sys.exit(main())
