"""Fork pool over a deterministic chunk list; one scratch directory per worker."""
import atexit
import multiprocessing as mp
import os
import shutil
import tempfile

from .stats import Stats

NPROC = int(os.environ.get("VERIF_JOBS", "0")) or min(16, os.cpu_count() or 1)

_BASE = None
_WORKDIR = None


def scratch_root():
    return "/dev/shm" if os.path.isdir("/dev/shm") and os.access("/dev/shm", os.W_OK) else tempfile.gettempdir()


def sweep_stale():
    """Remove scratch directories of dead runner processes (name carries the owner pid)."""
    root = scratch_root()
    for name in os.listdir(root):
        if not name.startswith("bvmc-"):
            continue
        try:
            pid = int(name.split("-")[1])
        except (IndexError, ValueError):
            continue
        if pid == os.getpid():
            continue
        try:
            os.kill(pid, 0)
        except ProcessLookupError:
            shutil.rmtree(os.path.join(root, name), ignore_errors=True)
        except PermissionError:
            pass


def base_dir():
    global _BASE
    if _BASE is None:
        _BASE = tempfile.mkdtemp(prefix=f"bvmc-{os.getpid()}-", dir=scratch_root())
        owner = os.getpid()

        def _cleanup():
            if os.getpid() == owner:
                os.chdir("/")
                shutil.rmtree(_BASE, ignore_errors=True)

        atexit.register(_cleanup)
    return _BASE


def workdir():
    """Scratch directory private to this process (created lazily, lives under base_dir)."""
    global _WORKDIR
    if _WORKDIR is None or _WORKDIR[0] != os.getpid():
        d = tempfile.mkdtemp(prefix=f"w{os.getpid()}-", dir=base_dir())
        _WORKDIR = (os.getpid(), d)
    return _WORKDIR[1]


def fresh_dir(name="p"):
    """A new empty directory under this worker's scratch dir; caller removes or reuses it."""
    d = os.path.join(workdir(), name)
    if os.path.isdir(d):
        shutil.rmtree(d)
    os.makedirs(d)
    return d


def _call(args):
    fn, chunk = args
    return fn(chunk)


def run_chunks(fn, chunks, nproc=None, selftest=True):
    """Run fn(chunk) -> Stats for every chunk; merge in chunk order.

    Determinism self-test: chunk 0 is executed a second time in a separate, fresh
    worker process and its observation digest must be identical.
    """
    base_dir()
    nproc = nproc or NPROC
    chunks = list(chunks)
    total = Stats()
    if not chunks:
        return total
    ctx = mp.get_context("fork")
    first_digest = None
    if nproc <= 1 or len(chunks) == 1:
        results = (fn(c) for c in chunks)
        for i, st in enumerate(results):
            if i == 0:
                first_digest = st.digest
            total.merge(st)
    else:
        with ctx.Pool(min(nproc, len(chunks))) as pool:
            for i, st in enumerate(pool.imap(_call, [(fn, c) for c in chunks], chunksize=1)):
                if i == 0:
                    first_digest = st.digest
                total.merge(st)
    if selftest:
        with ctx.Pool(1) as pool:
            again = pool.apply(_call, ((fn, chunks[0]),))
        if again.digest != first_digest:
            raise HarnessError(
                "determinism self-test failed: chunk 0 gave different observations in two processes"
            )
        total.counters["selftest_chunk0_reruns"] += 1
    return total


class HarnessError(Exception):
    """The machinery (not bumpver) is broken: exit code 2, never a VIOLATION."""


def split(seq, n):
    """Deterministic partition of a list into at most n contiguous chunks."""
    seq = list(seq)
    if not seq:
        return []
    n = max(1, min(n, len(seq)))
    k, r = divmod(len(seq), n)
    out, i = [], 0
    for j in range(n):
        size = k + (1 if j < r else 0)
        out.append(seq[i : i + size])
        i += size
    return out
