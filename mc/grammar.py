"""The bounded pattern grammar G (DESIGN.md 3.2): patterns are generated from token sequences, so
the intended reading of every pattern is known by construction; a well-formedness filter removes
inherently ambiguous strings (counted, never silently)."""
import datetime as dt
import itertools

from .ref import model as M


def L(s):
    return ("lit", s)


def P(n):
    return ("part", n)


def G(*items):
    return ("group", list(items))


# ---------------------------------------------------------------------------------------------
# blocks


def calendar_blocks(full=True):
    """[(name, tree)] - a year part with coherent sub-parts."""
    out = [("-", [])]
    for y in ("YYYY", "YY", "0Y"):
        fixed = y != "YY"
        subs = [
            [],
            [L("."), P("MM")],
            [L("."), P("0M")],
            [L("."), P("MM"), L("."), P("DD")],
            [L("."), P("0M"), L("."), P("0D")],
            [L("."), P("MM"), L("."), P("0D")],
            [L("."), P("JJJ")],
            [L("."), P("00J")],
            [L("d"), P("00J")],
            [L("."), P("Q")],
            [L("q"), P("Q")],
            [L("."), P("WW")],
            [L("."), P("0W")],
            [L("w"), P("0W")],
            [L("w"), P("WW")],
            [L("."), P("UU")],
            [L("."), P("0U")],
        ]
        if fixed:
            subs += [[P("0M")], [P("0M"), P("0D")], [P("00J")], [P("0W")], [P("0U")]]
        for s in subs:
            out.append((y + M.tree_text(s), [P(y)] + s))
    for g in ("GGGG", "GG", "0G"):
        subs = [[], [L("."), P("VV")], [L("."), P("0V")], [L("w"), P("0V")], [L("w"), P("VV")]]
        if g != "GG":
            subs.append([P("0V")])
        for s in subs:
            out.append((g + M.tree_text(s), [P(g)] + s))
    if not full:
        keep = {"-", "YYYY", "YYYY.MM", "YYYY0M", "YYYY.0M.0D", "YY.WW", "YYYY.0U", "GGGGw0V", "0Y.Q", "YYYY.JJJ"}
        out = [b for b in out if b[0] in keep]
    return out


def numeric_blocks(full=True):
    """[(name, tree-without-leading-separator)]; optional groups only around zero-able parts."""
    d = L(".")
    blocks = [
        ("-", []),
        ("MAJOR", [P("MAJOR")]),
        ("MAJOR.MINOR", [P("MAJOR"), d, P("MINOR")]),
        ("MAJOR.MINOR.PATCH", [P("MAJOR"), d, P("MINOR"), d, P("PATCH")]),
        ("MAJOR[.MINOR[.PATCH]]", [P("MAJOR"), G(d, P("MINOR"), G(d, P("PATCH")))]),
        # (sibling groups with the same separator, MAJOR[.MINOR][.PATCH], are inherently ambiguous - 1.3 is
        #  (minor 3) and (minor 0, patch 3) - and therefore not in G; siblings with distinct separators
        #  occur through the tag block: MAJOR[.MINOR[.PATCH]][-TAG])
        ("MAJOR.MINOR[.PATCH]", [P("MAJOR"), d, P("MINOR"), G(d, P("PATCH"))]),
        ("PATCH", [P("PATCH")]),
        ("MINOR.PATCH", [P("MINOR"), d, P("PATCH")]),
        ("INC0", [P("INC0")]),
        ("INC1", [P("INC1")]),
        ("BUILD", [P("BUILD")]),
        ("BLD", [P("BLD")]),
        ("PATCH.INC0", [P("PATCH"), d, P("INC0")]),
        ("MINOR.INC1", [P("MINOR"), d, P("INC1")]),
        ("MAJOR.INC0", [P("MAJOR"), d, P("INC0")]),
        ("INC0.PATCH", [P("INC0"), d, P("PATCH")]),
        ("PATCH.BUILD", [P("PATCH"), d, P("BUILD")]),
        ("BUILD.PATCH", [P("BUILD"), d, P("PATCH")]),
        ("MAJOR.MINOR.INC1", [P("MAJOR"), d, P("MINOR"), d, P("INC1")]),
        ("MINOR[.PATCH]", [P("MINOR"), G(d, P("PATCH"))]),
        ("MAJOR.BLD", [P("MAJOR"), d, P("BLD")]),
    ]
    if not full:
        keep = {"-", "MAJOR.MINOR.PATCH", "MAJOR[.MINOR[.PATCH]]", "PATCH", "INC0", "BUILD", "BLD", "MINOR.INC1"}
        blocks = [b for b in blocks if b[0] in keep]
    return blocks


def tag_blocks(full=True):
    blocks = [
        ("-", []),
        ("[-TAG]", [G(L("-"), P("TAG"))]),
        ("-TAG", [L("-"), P("TAG")]),
        ("[-TAGNUM]", [G(L("-"), P("TAG"), P("NUM"))]),
        ("[-TAG[NUM]]", [G(L("-"), P("TAG"), G(P("NUM")))]),
        ("[PYTAGNUM]", [G(P("PYTAG"), P("NUM"))]),
        ("[PYTAG[NUM]]", [G(P("PYTAG"), G(P("NUM")))]),
        ("[.PYTAGNUM]", [G(L("."), P("PYTAG"), P("NUM"))]),
        ("-TAGNUM", [L("-"), P("TAG"), P("NUM")]),
        # a separator between the tag and its number (v1.2.3-rc.1 is valid PEP 440)
        ("[-TAG.NUM]", [G(L("-"), P("TAG"), L("."), P("NUM"))]),
        ("[-TAG[.NUM]]", [G(L("-"), P("TAG"), G(L("."), P("NUM")))]),
    ]
    if not full:
        keep = {"-", "[-TAG]", "[PYTAGNUM]", "[-TAGNUM]", "[-TAG.NUM]"}
        blocks = [b for b in blocks if b[0] in keep]
    return blocks


README_PATTERNS = [
    "MAJOR.MINOR.PATCH[PYTAGNUM]", "MAJOR.MINOR[.PATCH[PYTAGNUM]]", "YYYY.BUILD[PYTAGNUM]", "YYYY.BUILD[-TAG]",
    "YYYY.INC0[PYTAGNUM]", "YYYY0M.PATCH[-TAG]", "YYYY0M.BUILD[-TAG]", "YYYY.0M", "YYYY.MM", "YYYY.WW",
    "YYYY.MM.PATCH[PYTAGNUM]", "YYYY.0M.PATCH[PYTAGNUM]", "YYYY.MM.INC0", "YYYY.MM.DD", "YYYY.0M.0D", "YY.0M.PATCH",
    "vYYYY0M.BUILD[-TAG]", "vYYYY.BUILD[-TAG]", "YYYY.MM[.PATCH]", "YYYY.MM[.INC0]", "vYYYY.WW[-TAGNUM]", "YYYY.BUILD",
    "vYY.0M.0D[-TAG]", "YYYY.BLD[PYTAGNUM]", "vMAJOR.MINOR.PATCH", "vMAJOR.MINOR.PATCH[-TAGNUM]",
    "vMAJOR[.MINOR[.PATCH[-TAG]]]", "vYYYYw0W.BUILD[-TAG]", "vYYYYd00J.BUILD[-TAG]", "vGGGGwVV.BLD[PYTAGNUM]",
    "vGGGGw0V.BUILD[-TAG]",
]


class Pat:
    __slots__ = ("text", "tree", "names", "fields")

    def __init__(self, tree):
        self.tree = tree
        self.text = M.tree_text(tree)
        self.names = M.parts_in_order(tree)
        self.fields = [M.PARTS[n][0] for n in self.names]

    def __repr__(self):
        return f"Pat({self.text})"


VARIABLE_WIDTH_DIGITS = {"MAJOR", "MINOR", "PATCH", "NUM", "INC0", "INC1", "BUILD", "BLD", "YY", "GG", "MM", "DD", "JJJ", "WW", "UU", "VV"}
DIGIT_PARTS = set(M.PARTS) - {"TAG", "PYTAG"}


def _flat(tree):
    for it in tree:
        if it[0] == "group":
            yield from _flat(it[1])
        else:
            yield it


def well_formed(tree):
    """-> None if fine, else the reason the pattern is inherently ambiguous / unrepresentable."""
    names = M.parts_in_order(tree)
    fields = [M.PARTS[n][0] for n in names]
    if len(set(fields)) != len(fields):
        return "two parts for one field"
    text = M.tree_text(tree)
    try:
        if M.parse_pattern(text) != tree or M.parse_pattern(text, right_to_left=True) != tree:
            return "tokenisation not unique"
    except M.PatternSyntaxError:
        return "syntax"
    flat = list(_flat(tree))
    for a, b in zip(flat, flat[1:]):
        if a[0] == "part" and b[0] == "part" and a[1] in VARIABLE_WIDTH_DIGITS and b[1] in DIGIT_PARTS:
            return "variable-width digit part directly followed by a digit part"
        if a[0] == "part" and a[1] in VARIABLE_WIDTH_DIGITS and b[0] == "lit" and b[1][0].isdigit():
            return "variable-width digit part followed by a digit literal"
        # PYTAG can be empty (final): a digit part before [PYTAG...NUM] then touches NUM only in the
        # (final, NUM>0) state, which no seed and no in-domain event produces
    return None


def compose(cal, num, tag, prefix="", order="cnt"):
    ctree, ntree, ttree = cal[1], num[1], tag[1]
    items = []
    first, second = (ctree, ntree) if order == "cnt" else (ntree, ctree)
    if prefix:
        items.append(L(prefix))
    items += first
    if second:
        if first:
            # a numeric block made only of zero-able parts may hang in an optional group
            items.append(L("."))
        items += second
    items += ttree
    if not (first or second):
        return None
    return items


def merge_lits(tree):
    out = []
    for it in tree:
        if it[0] == "group":
            it = ("group", merge_lits(it[1]))
        if it[0] == "lit" and out and out[-1][0] == "lit":
            out[-1] = ("lit", out[-1][1] + it[1])
        else:
            out.append(it)
    return out


def generate(mode="full", orders=("cnt",), prefixes=("", "v")):
    """mode: 'full' = complete product of the three blocks; 'star' = star + core (DESIGN 3.2).
    -> (list[Pat], Counter of filtered-out reasons)"""
    import collections

    filtered = collections.Counter()
    seen, pats = set(), []

    def add(tree):
        tree = merge_lits(tree)
        reason = well_formed(tree)
        if reason:
            filtered[reason] += 1
            return
        p = Pat(tree)
        if p.text not in seen:
            seen.add(p.text)
            pats.append(p)

    for text in README_PATTERNS:
        add(M.parse_pattern(text))
    cals, nums, tags = calendar_blocks(True), numeric_blocks(True), tag_blocks(True)
    if mode == "full":
        combos = itertools.product(cals, nums, tags)
    else:
        rc, rn, rt = calendar_blocks(False), numeric_blocks(False), tag_blocks(False)
        rep_c, rep_n, rep_t = rc[:4], rn[:4], rt[:3]
        star = (
            list(itertools.product(cals, rep_n[1:3], rep_t[:2]))
            + list(itertools.product(rep_c[:3], nums, rep_t[:2]))
            + list(itertools.product(rep_c[:3], rep_n[1:3], tags))
        )
        core = list(itertools.product(rc, rn, rt))
        combos = star + core if mode == "star" else core
    for cal, num, tag in combos:
        for order in orders:
            for prefix in prefixes:
                tree = compose(cal, num, tag, prefix, order)
                if tree is not None:
                    add(tree)
        # optional numeric tail after a calendar block: YYYY.MM[.PATCH]
        if cal[1] and num[0] in ("PATCH", "INC0", "MINOR.PATCH") and mode != "core":
            tail = G(L("."), *num[1])
            add(cal[1] + [tail] + tag[1])
    return pats, filtered


# ---------------------------------------------------------------------------------------------
# value alphabets and seed states

NUMERIC = (0, 1, 9, 10, 99, 100)
NUMS = (0, 1, 9, 10)
BUILDS = ("1001", "1999", "0001", "0999", "1000", "8999", "09999", "22000")
BLDS = ("1001", "1999", "1000", "8999", "22000")
SEED_DATES = (
    dt.date(2020, 6, 15), dt.date(2020, 12, 31), dt.date(2021, 1, 3), dt.date(2024, 2, 29),
    dt.date(2023, 1, 1), dt.date(2019, 12, 30), dt.date(2021, 10, 9), dt.date(2099, 12, 31),
)


def seeds(pat, level=1):
    """Deterministic covering set of states: a base state, every part over its alphabet one at a time,
    all-zero and all-large corners; level 2 adds pairwise corners of the numeric parts."""
    fields = []
    for n in pat.names:
        f = M.PARTS[n][0]
        if f not in fields:
            fields.append(f)
    cal_fields = [f for f in fields if f in M.CAL_FIELDS]
    other = [f for f in fields if f not in M.CAL_FIELDS]
    bid_alpha = BLDS if "BLD" in pat.names else BUILDS

    def alpha(f):
        if f in ("major", "minor", "patch", "inc0"):
            return NUMERIC
        if f == "inc1":
            return (1, 2, 9, 10, 99, 100)
        if f == "num":
            return NUMS
        if f == "bid":
            return bid_alpha
        if f == "tag":
            return M.TAGS + (("preview",) if "TAG" in pat.names else ())  # (TAG accepts `preview`; PYTAG has no such spelling)
        raise KeyError(f)

    base = {}
    for f in other:
        base[f] = {"major": 1, "minor": 2, "patch": 3, "inc0": 4, "inc1": 5, "num": 0, "bid": bid_alpha[0], "tag": "final"}[f]
    dates = SEED_DATES if cal_fields else (None,)
    if level < 2:
        dates = dates[:5] if cal_fields else dates
    out, seen = [], set()

    def emit(d, vals):
        st = dict(vals)
        if st.get("tag") == "final" and "num" in st:
            st["num"] = 0  # (final, NUM>0) is not a state of the documented scheme
        if d is not None:
            cal = M.cal_from_date(d)
            for f in cal_fields:
                st[f] = cal[f]
        key = tuple(sorted(st.items()))
        if key not in seen:
            seen.add(key)
            out.append(st)

    for di, d in enumerate(dates):
        emit(d, base)
        if di > 0 and level < 2:
            continue
        for f in other:
            for v in alpha(f):
                vals = dict(base)
                vals[f] = v
                if f == "num" and vals.get("tag", "rc") == "final":
                    vals["tag"] = "rc"
                emit(d, vals)
        zero = {f: ({"inc1": 1, "bid": bid_alpha[2], "tag": "final"}.get(f, 0)) for f in other}
        big = {f: ({"bid": bid_alpha[1], "tag": "post", "num": 9}.get(f, 99)) for f in other}
        emit(d, zero)
        emit(d, big)
        if level >= 2:
            nf = [f for f in other if f in ("major", "minor", "patch", "inc0", "inc1")]
            for a, b in itertools.combinations(nf, 2):
                for va, vb in ((0, 9), (9, 0), (9, 99), (0, 0)):
                    vals = dict(base)
                    vals[a] = va if a != "inc1" else max(1, va)
                    vals[b] = vb if b != "inc1" else max(1, vb)
                    emit(d, vals)
            if "tag" in other and "num" in other:
                for t in M.TAGS[1:]:
                    for n in NUMS:
                        vals = dict(base, tag=t, num=n)
                        emit(d, vals)
    return out


def seed_date(state):
    """A date consistent with the calendar fields of a seed state (used to place date offsets)."""
    if "year" in state and "month" in state and "dom" in state:
        return dt.date(state["year"], state["month"], state["dom"])
    if "year" in state and "doy" in state:
        return dt.date(state["year"], 1, 1) + dt.timedelta(days=state["doy"] - 1)
    if "year_g" in state:
        return dt.date.fromisocalendar(state["year_g"], min(state.get("week_v", 1), 52), 4)
    if "year" in state:
        y = state["year"]
        if "month" in state:
            return dt.date(y, state["month"], 15)
        if "quarter" in state:
            return dt.date(y, state["quarter"] * 3 - 1, 15)
        for f, fmt_first in (("week_w", 0), ("week_u", 6)):
            if f in state:
                # some day inside that week of that year
                d = dt.date(y, 1, 1)
                for _ in range(370):
                    if d.year == y and M.cal_from_date(d)[f] == state[f]:
                        return d
                    d += dt.timedelta(days=1)
        return dt.date(y, 6, 15)
    return dt.date(2020, 6, 15)
