"""Writes evidence/<ID>.json from a Stats object (schema: /root/.vp/EVIDENCE.schema.json)."""
import json
import os

ROOT = os.path.dirname(os.path.dirname(os.path.abspath(__file__)))


def write(mod, pid, tier, seed, st, wall, n_new, known):
    from . import world

    level = getattr(mod, "LEVEL", "model_checking")
    cov = {
        "evaluations": st.evaluations,
        "distinct_nontrivial": len(st.nontrivial) if st.nontrivial else len(st.states) + st.states_by_construction,
        "rule": getattr(mod, "RULE", ""),
        "samples": st.samples[:6],
        "exhaustive": not st.caps,
        "caps_hit": st.caps,
        "distinct_outcomes": len(st.outcomes),
        "outcomes": {k: v for k, v in sorted(st.outcomes.items(), key=lambda kv: -kv[1])[:40]},
        "counters": dict(sorted(st.counters.items())),
        "bounds": mod.bounds(tier, seed) if hasattr(mod, "bounds") else {},
        "impl_src": os.environ.get("BUMPVER_SRC", "/repo/src"),
        "impl_fingerprint": world.src_fingerprint(),
        "known_findings_seen": [
            {"signature": e["signature"], "what": e["what"], "cases": v["count"]} for e, v in known
        ],
    }
    if level == "model_checking":
        cov["states"] = len(st.states) + st.states_by_construction
        cov["transitions"] = st.transitions
        cov["traces_validated_against_impl"] = st.validated
        cov["validation_note"] = (
            "exploration runs on the implementation itself: every transition is an execution of the real "
            "code whose observation was compared with the oracle / reference model"
        )
    doc = {
        "property_id": pid,
        "tier": tier,
        "seed": seed,
        "level": level,
        "coverage": cov,
        "assumptions": list(getattr(mod, "ASSUMPTIONS", [])),
        "wall_s": round(wall, 2),
        "violations": n_new,
    }
    d = os.path.join(ROOT, "evidence")
    if os.path.realpath(os.environ.get("BUMPVER_SRC", "/repo/src")) != "/repo/src":
        # a run against a scratch copy (mutant driver) must never overwrite evidence about /repo
        d = os.environ.get("VERIF_ALT_EVIDENCE_DIR", "")
        if not d:
            return
    os.makedirs(d, exist_ok=True)
    tmp = os.path.join(d, f".{pid}.json.tmp")
    with open(tmp, "w") as f:
        json.dump(doc, f, indent=1, sort_keys=True)
        f.write("\n")
    os.replace(tmp, os.path.join(d, f"{pid}.json"))
