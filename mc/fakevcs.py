"""Fake VCS + hook runner at the subprocess seam (bumpver.vcs.sp / bumpver.hooks.sp).

Records every argv exactly as a list of strings and answers from a small world model.  Commands are classified
into read-only *queries* and *effects*; monitors constrain effects only, so refactorings that reorder queries
raise no alarm.
"""
import io
import os
import re
import subprocess

import bumpver.hooks as bvhooks
import bumpver.vcs as bvvcs


def classify(argv):
    """-> (vcs, kind, name): kind 'query' | 'effect' | 'unknown'"""
    if not argv:
        return (None, "unknown", "")
    tool = os.path.basename(argv[0])
    sub = argv[1] if len(argv) > 1 else ""
    if tool == "git":
        if sub == "rev-parse":
            if any("@{u" in a or "@{upstream" in a for a in argv):
                return ("git", "query", "upstream")
            return ("git", "query", "is_usable")
        if sub == "remote":
            return ("git", "query", "show_remotes")
        if sub == "fetch":
            return ("git", "effect", "fetch")
        if sub == "tag":
            if "--list" in argv or "-l" in argv:
                return ("git", "query", "ls_tags_branch" if "--merged" in argv else "ls_tags")
            return ("git", "effect", "tag")
        if sub == "for-each-ref" and any("refs/tags" in a for a in argv):
            return ("git", "query", "ls_tags_branch" if any(a.startswith("--merged") for a in argv) else "ls_tags")
        if sub == "status":
            return ("git", "query", "status")
        if sub == "add":
            return ("git", "effect", "add")
        if sub == "commit":
            return ("git", "effect", "commit")
        if sub == "push":
            return ("git", "effect", "push")
        if sub == "config":
            return ("git", "query", "show_remotes")
        if sub == "branch":
            return ("git", "query", "ls_branches")
        return ("git", "unknown", sub)
    if tool == "hg":
        if sub == "root":
            return ("hg", "query", "is_usable")
        if sub == "pull":
            return ("hg", "effect", "fetch")
        if sub == "tags":
            return ("hg", "query", "ls_tags")
        if sub == "log":
            return ("hg", "query", "ls_tags_branch")
        if sub == "status":
            return ("hg", "query", "status")
        if sub == "add":
            return ("hg", "effect", "add")
        if sub == "commit":
            return ("hg", "effect", "commit")
        if sub == "tag":
            return ("hg", "effect", "tag")
        if sub == "push":
            return ("hg", "effect", "push")
        if sub == "paths":
            return ("hg", "query", "show_remotes")
        return ("hg", "unknown", sub)
    return (None, "unknown", tool)


class FakeProc:
    def __init__(self, rc, out, err):
        self._rc = rc
        self.returncode = None
        self.stdout = io.BytesIO(out)
        self.stderr = io.BytesIO(err)

    def wait(self, timeout=None):
        self.returncode = self._rc
        return self._rc

    def communicate(self, *a, **k):
        self.returncode = self._rc
        return (self.stdout.read(), self.stderr.read())

    def poll(self):
        return self.returncode

    # a refactoring may use the process as a context manager or signal it
    def __enter__(self):
        return self

    def __exit__(self, *exc):
        if self.returncode is None:
            self.returncode = self._rc
        return False

    def kill(self):
        self.returncode = -9

    def terminate(self):
        self.returncode = -15

    pid = 4242
    args = ()


class FakeVCS:
    PIPE = subprocess.PIPE
    STDOUT = subprocess.STDOUT
    DEVNULL = subprocess.DEVNULL
    CalledProcessError = subprocess.CalledProcessError
    SubprocessError = subprocess.SubprocessError
    TimeoutExpired = subprocess.TimeoutExpired

    def __init__(self, kind="git", tags_all=(), tags_merged=None, status=(), remote="upstream", hooks=None, fail=None,
                 files_probe=None, tags_after_fetch=None):
        """remote: 'upstream' (current branch tracks origin/main), 'url' (only remote.origin.url), None.
        fail: None | (name, nth[, stderr]) - the nth (0-based) command with that classified name answers with failure
              (exit 1 and a neutral message, or exit 128/255 and the given stderr text, e.g. what the real tool prints).
        hooks: {abs or rel path: (rc, stdout bytes, stderr bytes)}; files_probe(): snapshot of the project at an effect."""
        self.kind = kind
        self.tags_all = list(tags_all)
        self.tags_merged = list(tags_all if tags_merged is None else tags_merged)
        self.status = list(status)
        self.remote = remote
        self.hooks = hooks or {}
        self.fail = fail
        self.files_probe = files_probe
        self.tags_after_fetch = tags_after_fetch  # tag list (all branches) once a fetch has succeeded
        self.log = []  # dicts: type cmd|hook
        self._seen = {}

    # -- subprocess API used by bumpver --------------------------------------------------------
    def _answer(self, argv, env):
        argv = [str(a) for a in argv]
        vcs, kind, name = classify(argv)
        n = self._seen.get(name, 0)
        self._seen[name] = n + 1
        entry = {"type": "cmd", "argv": argv, "vcs": vcs, "kind": kind, "name": name, "ok": True}
        if env is not None:
            entry["env"] = {k: v for k, v in env.items() if k.startswith(("BUMPVER_", "HGENCODING"))}
        if vcs == "hg" and name == "commit" and "--logfile" in argv:
            try:
                with open(argv[argv.index("--logfile") + 1], "rb") as f:
                    entry["logfile_content"] = f.read()
            except OSError as ex:
                entry["logfile_content"] = None
                entry["logfile_error"] = str(ex)
        if kind == "effect" and self.files_probe is not None:
            entry["files"] = self.files_probe()
        self.log.append(entry)
        if vcs != self.kind and vcs is not None:
            entry["ok"] = False
            return 1, b"", b"not a repository"
        if name == "tag" and kind == "effect":
            # creating a tag that already exists fails, as it does in git and hg
            rest = [a for i, a in enumerate(argv[2:], 2) if not a.startswith("-") and argv[i - 1] not in ("--message", "-m")]
            if rest and rest[0] in self.tags_all:
                entry["ok"] = False
                return (128 if self.kind == "git" else 255), b"", f"fatal: tag '{rest[0]}' already exists\n".encode()
        if self.fail is not None and self.fail[0] == name and self.fail[1] == n:
            entry["ok"] = False
            if len(self.fail) > 2 and self.fail[2]:
                return (128 if self.kind == "git" else 255), b"", self.fail[2].encode()
            return 1, b"", ("injected failure of " + name).encode()
        out = b""
        if name == "fetch" and self.tags_after_fetch is not None:
            self.tags_all = list(self.tags_after_fetch)
            self.tags_merged = list(self.tags_after_fetch)
        if name == "ls_tags":
            lines = self.tags_all
            if self.kind == "hg":
                lines = [f"{t}    {i}:abcdef{i:06d}" for i, t in enumerate(lines)] + ["tip    99:ffffffffffff"]
            out = "".join(l + "\n" for l in lines).encode()
        elif name == "ls_tags_branch":
            out = "".join(l + "\n" for l in self.tags_merged).encode()
        elif name == "status":
            if "-z" in argv:
                out = "".join(l + "\0" for l in self.status).encode()
            else:
                out = "".join(l + "\n" for l in self.status).encode()
        elif name == "upstream":
            if self.remote == "upstream":
                out = b"origin/main\n"
            else:
                entry["ok"] = True
                return 128, b"", b"fatal: no upstream configured for branch 'main'"
        elif name == "ls_branches":
            # `git branch -vv` ends each line with the SUBJECT of the branch's last commit - after a commit made through this fake that
            # is the first line of its message (real git prints exactly that; a subject like "[ci/skip] ..." looks like an upstream)
            subject = self.last_subject()
            rows = [(" ", "dev", "1234567", "origin/dev", "other"), ("*", "main", "89abcde", "origin/main", subject)] if self.remote == "upstream" \
                else [("*", "main", "89abcde", "", subject)]
            rows.insert(0, (" ", "fix/\u00fcberschrift", "7654321", "", "wip \u00fc"))  # (some other local branch has a non-ASCII name)
            fmt = next((a[len("--format="):] for a in argv if a.startswith("--format=")), None)
            if fmt is None:
                # -vv layout: "<HEAD> <name> <hash> [<upstream>] <subject>" / without upstream "<HEAD> <name> <hash> <subject>"
                text = "".join(f"{h} {n:6s} {o} " + (f"[{u}] " if u else "") + sub + "\n" for h, n, o, u, sub in rows)
            else:
                def render(row):
                    h, n, o, u, sub = row
                    table = {"HEAD": h, "refname:short": n, "refname": "refs/heads/" + n, "objectname:short": o, "objectname": o + "0" * 33,
                             "upstream:short": u, "upstream": ("refs/remotes/" + u) if u else "", "upstream:remotename": u.split("/")[0] if u else "",
                             "subject": sub, "contents:subject": sub}
                    return re.sub(r"%\(([^)]*)\)", lambda m: table.get(m.group(1), ""), fmt)
                text = "".join(render(r) + "\n" for r in rows)
            out = text.encode("utf-8", "replace")
        elif name == "show_remotes":
            if self.remote in ("upstream", "url"):
                out = b"git@example.invalid:demo/demo.git\n" if self.kind == "git" else b"default = https://example.invalid/demo\n"
            else:
                out = b""
                if self.kind == "git":
                    entry["ok"] = True
                    return 1, b"", b""  # git config --get exits 1 when the key is unset
        elif name == "is_usable":
            out = b".git\n" if self.kind == "git" else b"/repo\n"
        return 0, out, b""

    def check_output(self, cmd, env=None, stderr=None, **kw):
        rc, out, err = self._answer(cmd, env)
        if rc != 0:
            raise subprocess.CalledProcessError(rc, cmd, output=out, stderr=err)
        return out

    def call(self, cmd, stderr=None, stdout=None, env=None, **kw):
        rc, _out, _err = self._answer(cmd, env)
        return rc

    def run(self, cmd, **kw):  # not used by bumpver today; a refactoring may
        rc, out, err = self._answer(cmd, kw.get("env"))
        if kw.get("check") and rc != 0:
            raise subprocess.CalledProcessError(rc, cmd, output=out, stderr=err)
        return subprocess.CompletedProcess(cmd, rc, out, err)

    def Popen(self, path, env=None, stdout=None, stderr=None, **kw):
        p = path if isinstance(path, str) else path[0]
        key = None
        for k in self.hooks:
            if os.path.abspath(k) == os.path.abspath(p):
                key = k
        entry = {"type": "hook", "path": p, "env": {k: v for k, v in (env or {}).items() if k.startswith("BUMPVER_")}, "ok": True}
        if self.files_probe is not None:
            entry["files"] = self.files_probe()
        self.log.append(entry)
        if key is None:
            entry["ok"] = False
            raise FileNotFoundError(2, "No such file or directory", p)
        rc, out, err = self.hooks[key]
        entry["ok"] = rc == 0
        entry["name"] = os.path.basename(key)
        return FakeProc(rc, out, err)

    # -- helpers ---------------------------------------------------------------------------------
    def last_subject(self):
        for e in reversed(self.log):
            if e["type"] == "cmd" and e["name"] == "commit" and e.get("ok"):
                argv = e["argv"]
                msg = None
                for flag in ("--message", "-m"):
                    if flag in argv and argv.index(flag) + 1 < len(argv):
                        msg = argv[argv.index(flag) + 1]
                if msg is None and e.get("logfile_content"):
                    msg = e["logfile_content"].decode("utf-8", "replace")
                if msg is not None:
                    lines = [l for l in msg.split("\n") if l.strip()]
                    return lines[0].strip() if lines else ""
        return "bump"

    def effects(self):
        return [e for e in self.log if e["type"] == "hook" or e["kind"] == "effect"]

    def effect_names(self):
        return [("hook:" + e.get("name", "?")) if e["type"] == "hook" else e["name"] for e in self.effects()]


_REAL = (bvvcs.sp, bvhooks.sp)


def install(fake):
    bvvcs.sp = fake
    bvhooks.sp = fake
    return fake


def uninstall():
    bvvcs.sp, bvhooks.sp = _REAL


# ---------------------------------------------------------------------------------------------------
# Seam conformance: the same world served by real child processes (fake executables first on PATH).
# If bumpver ever started a child process that does not go through the rebound `sp` attributes, the in-process
# fake would silently see nothing; comparing the argv traces of the two set-ups turns that into a loud harness error.

_GIT_SCRIPT = r"""#!/bin/sh
# generated fake git: log argv (NUL separated, one record per line), answer from files in $FAKE_DIR
{ for a in "$@"; do printf '%s\0' "$a"; done; printf '\n'; } >> "$FAKE_DIR/argv.log"
case "$1" in
  rev-parse) echo .git ;;
  status) cat "$FAKE_DIR/status.txt" ;;
  tag) case " $* " in *" --list "*|*" -l "*) case " $* " in *" --merged "*) cat "$FAKE_DIR/tags_merged.txt" ;; *) cat "$FAKE_DIR/tags_all.txt" ;; esac ;; esac ;;
  for-each-ref) cat "$FAKE_DIR/tags_all.txt" ;;
  branch) case " $* " in *" --format="*) cat "$FAKE_DIR/branches_fmt.txt" ;; *) cat "$FAKE_DIR/branches.txt" ;; esac ;;
  config) if [ -s "$FAKE_DIR/remote.txt" ]; then cat "$FAKE_DIR/remote.txt"; else exit 1; fi ;;
  *) : ;;
esac
exit 0
"""
_HOOK_SCRIPT = r"""#!/bin/sh
printf 'HOOK\0%s\0%s\0%s\0\n' "$0" "$BUMPVER_OLD_VERSION" "$BUMPVER_NEW_VERSION" >> "$FAKE_DIR/argv.log"
exit @RC@
"""


def path_fake_setup(fake_dir, bin_dir, tags_all=(), tags_merged=None, status=(), remote="upstream"):
    os.makedirs(fake_dir, exist_ok=True)
    os.makedirs(bin_dir, exist_ok=True)
    git = os.path.join(bin_dir, "git")
    with open(git, "w") as f:
        f.write(_GIT_SCRIPT)
    os.chmod(git, 0o755)

    def w(name, lines):
        with open(os.path.join(fake_dir, name), "w", encoding="utf-8") as f:
            f.write("".join(l + "\n" for l in lines))

    w("tags_all.txt", tags_all)
    w("tags_merged.txt", tags_all if tags_merged is None else tags_merged)
    w("status.txt", status)
    w("branches.txt", ["  fix/\u00fcberschrift 7654321 wip \u00fc"] + (["  dev    1234567 [origin/dev] other", "* main   89abcde [origin/main] bump"] if remote == "upstream" else ["* main   89abcde bump"]))
    # (the executable does not interpret --format; it serves what the format in use - HEAD name hash [upstream] - prints)
    w("branches_fmt.txt", ["  fix/\u00fcberschrift 7654321 []"] + (["  dev 1234567 [origin/dev]", "* main 89abcde [origin/main]"] if remote == "upstream" else ["* main 89abcde []"]))
    w("remote.txt", ["git@example.invalid:demo/demo.git"] if remote in ("upstream", "url") else [])
    open(os.path.join(fake_dir, "argv.log"), "w").close()


def path_fake_hook(path, rc):
    with open(path, "w") as f:
        f.write(_HOOK_SCRIPT.replace("@RC@", str(rc)))
    os.chmod(path, 0o755)


def path_fake_trace(fake_dir):
    """[[argv...] | ["HOOK", basename, old, new]] in issue order."""
    out = []
    with open(os.path.join(fake_dir, "argv.log"), "rb") as f:
        for rec in f.read().split(b"\0\n"):
            if not rec:
                continue
            parts = [p.decode("utf-8", "replace") for p in rec.split(b"\0")]
            if parts[0] == "HOOK":
                out.append(["HOOK", os.path.basename(parts[1]), parts[2], parts[3]])
            else:
                out.append(["git"] + parts)
    return out
