"""Deterministic enumeration of constructed projects for C03 / C04 / C13 / C06."""
import itertools

from . import projtable as pt
from .ref import model as M

FILL = {
    # [first line, right of an occurrence, a line between, last line, LEFT of an occurrence on its line]
    "ascii": ["first line", " (released)", "see also the changelog", "tail", None],
    "accent": ["préambule été", " (publié)", "voir à côté", "fin é", "clé é: "],
    "euro": ["price € 5", " (€)", "€€", "end €", "€ "],
    "astral": ["rocket \U0001F680", " (\U0001F680)", "\U00010348 gothic", "end \U0001F600", "\U0001F680 \U00010348: "],
    "tab": ["\tindented\tline", "\t# comment", "a\tb", "\ttail", "\tkey\t"],
    "ctrl": ["form\x0cfeed", " \x01ctl", "bell\x07", "\x1besc", "\x0c\x01 "],
    "regex": ["a.*b+c?(d)|e^f$g\\h", " [x]{2}", "(?P<n>.)\\1", "$^.*", "(.*)|^x$ "],
    "trailing": ["line with trailing spaces   ", " x  ", "   ", "tail \t ", "   "],
    # text whose length changes under Unicode normalisation (NFC/NFKC), case mapping or stripping of invisible characters
    "decomposed": ["e\u0301te\u0301 cafe\u0301", " (A\u030angstro\u0308m)", "\u1112\u1161\u11ab hangul jamo", "end n\u0303", "cle\u0301 \u1112\u1161\u11ab o\u0308: "],
    "compat": ["\ufb01ne ligature \u2460", " (\u2122 \u212a)", "\u00df \u0130 \u0131 \u1e9e", "end \uff21\uff11", "\ufb03 \u00df\u0130 \u2168: "],
    "invisible": ["zero\u200bwidth", " (\u200e\u00a0\u2028?)", "nbsp\u00a0\u00a0soft\u00adhyphen", "end \ufeff", "\u00a0\u200b\u00ad "],
}
NEAR_MISS = "near-miss"


def sep_list(regime, n):
    """n line boundaries for a regime."""
    if regime in pt.EOLS:
        return [pt.EOLS[regime]] * n
    a, b = {"CRLF+LF": ("\r\n", "\n"), "LF+CR": ("\n", "\r"), "CRLF+CR": ("\r\n", "\r")}[regime]
    return [(a if i % 2 == 0 else b) for i in range(n)]


def build_file(name, fps, arrangement, fill, regime, final_nl, bom=False, blank_edges=False, near_miss=None):
    """arrangement: 'own-lines' | ('one-line', order tuple) | ('repeat', k)"""
    F = FILL[fill]
    lines = []
    head = ("﻿" if bom else "") + F[0]
    lines.append([("t", head)])
    if blank_edges:
        lines.insert(0, [("t", "")])
    if arrangement == "edges":
        # the occurrence is the whole first line and the whole last line (no filler around it); with final_nl False the
        # file ends in the occurrence itself
        lines = [[("o", fps[0])], [("t", F[2])], [("o", fps[-1])]]
        n = len(lines)
        seps = sep_list(regime, n - 1)
        return pt.FileSpec(name, list(fps), lines, seps, sep_list(regime, n)[-1] if final_nl else "")
    if arrangement == "single-line":
        return pt.FileSpec(name, list(fps), [[("t", (F[4] if F[4] is not None else F[0] + " ")), ("o", fps[0])]], [], sep_list(regime, 1)[0] if final_nl else "")
    if arrangement == "own-lines":
        for k, fp in enumerate(fps):
            pre = "" if fp.anchor_l else (F[4] if F[4] is not None and k % 2 == 0 else ("value: " if k % 2 == 0 else "\t- "))
            post = "" if fp.anchor_r else F[1]
            line = ([("t", pre)] if pre else []) + [("o", fp)] + ([("t", post)] if post else [])
            lines.append(line)
            lines.append([("t", F[2])])
    elif arrangement[0] == "one-line":
        line = [("t", "all: ")]
        for k, idx in enumerate(arrangement[1]):
            if k:
                line.append(("t", " | also "))
            line.append(("o", fps[idx]))
        line.append(("t", F[1]))
        lines.append(line)
        lines.append([("t", F[2])])
    elif arrangement[0] == "one-line+own":
        # all patterns on one line in the given order, and each pattern once more on a line of its own
        line = [("t", "all: ")]
        for k, idx in enumerate(arrangement[1]):
            if k:
                line.append(("t", " | also "))
            line.append(("o", fps[idx]))
        line.append(("t", F[1]))
        lines.append(line)
        for k, fp in enumerate(fps):
            lines.append([("t", f"again {k}: "), ("o", fp), ("t", F[1])])
        lines.append([("t", F[2])])
    elif arrangement[0] == "repeat":
        for r in range(arrangement[1]):
            for fp in fps:
                pre = "" if fp.anchor_l else (f"copy {r}: " if F[4] is None else f"{F[4]}{r}: ")
                post = "" if fp.anchor_r else F[1]
                lines.append(([("t", pre)] if pre else []) + [("o", fp)] + ([("t", post)] if post else []))
            lines.append([("t", F[2])])
    elif arrangement == "twice-on-a-line":
        # the same pattern two and three times on one line
        for fp in fps:
            if fp.anchor_l or fp.anchor_r:
                continue
            lines.append([("t", "either "), ("o", fp), ("t", " or "), ("o", fp), ("t", F[1])])
            lines.append([("o", fp), ("t", ", "), ("o", fp), ("t", ", "), ("o", fp)])
        lines.append([("t", F[2])])
    elif arrangement == "glued":
        # occurrences directly preceded by a letter or an underscore (v1.2.3, demo_1.2.3), next to a normally delimited one
        for fp in fps:
            if fp.anchor_l:
                continue
            post = "" if fp.anchor_r else F[1]
            for pre in ("v", "demo_", "release: ", "Z"):
                lines.append([("t", pre), ("o", fp)] + ([("t", post)] if post else []))
        lines.append([("t", F[2])])
    elif arrangement[0] == "repeat-dense":
        # the same pattern on consecutive lines, nothing in between
        for r in range(arrangement[1]):
            fp = fps[0]
            pre = "" if fp.anchor_l else f"copy {r}: "
            post = "" if fp.anchor_r else F[1]
            lines.append(([("t", pre)] if pre else []) + [("o", fp)] + ([("t", post)] if post else []))
    if near_miss:
        for nm in near_miss:
            lines.append([("t", nm)])
    lines.append([("t", F[3])])
    if blank_edges:
        lines.append([("t", "")])
    n = len(lines)
    seps = sep_list(regime, n - 1)
    if final_nl:
        final = sep_list(regime, n)[-1]
    else:
        final = ""
    return pt.FileSpec(name, list(fps), lines, seps, final)


def near_misses(pat, old_state, new_state, fps):
    """Text that looks like a version but must not be touched; rejected if the reference says a pattern matches it."""
    old = M.render(pat.tree, old_state)
    cands = []
    if len(old) > 2:
        cands.append("old build " + old[:-1] + "x" + " kept")  # one character changed
    cands += ["other scheme 7.8.9-rc1 here", "calver 2019.12 there", "junk v.. 1. .2"]
    good, rejected = [], 0
    for c in cands:
        if any(fp.ref_search(c, None) for fp in fps):
            rejected += 1
        else:
            good.append(c)
    return good, rejected


def pattern_subsets(pat, max_k):
    alpha = [pt.FilePattern(pid, raw, pat) for pid, raw in pt.raw_pattern_alphabet(pat)]
    out = []
    for k in range(1, max_k + 1):
        for combo in itertools.combinations(alpha, k):
            out.append(list(combo))
    return out
