"""Scratch projects and in-process invocation of the real bumpver CLI.

The harness owns: today's date (bumpver.version.TODAY, bumpver.utils.now), logging
(own root handler, installed before bumpver's basicConfig can), stdout, the current
directory.  Child processes are owned by fakevcs / gitworld.
"""
import contextlib
import datetime as dt
import io
import logging
import os
import re
import sys
import typing as typ

import click

import bumpver.cli as bvcli
import bumpver.config as bvconfig  # noqa: F401  (imported for its side effects on import order)
import bumpver.utils as bvutils
import bumpver.version as bvversion

# ---------------------------------------------------------------------------
# logging capture

_RECORDS: typ.List[typ.Tuple[str, str]] = []


class _Capture(logging.Handler):
    def emit(self, record):
        try:
            msg = record.getMessage()
        except Exception as ex:  # pragma: no cover
            msg = f"<unformattable {ex!r}>"
        _RECORDS.append((record.levelname, msg))


def _install_logging():
    root = logging.getLogger()
    for h in list(root.handlers):
        root.removeHandler(h)
    root.addHandler(_Capture())
    root.setLevel(logging.INFO)


_install_logging()

# ---------------------------------------------------------------------------
# clock

_REAL_NOW = bvutils.now


def set_today(date: dt.date):
    """Pin every clock bumpver reads."""
    bvversion.TODAY = date

    def _now():
        return dt.datetime(date.year, date.month, date.day, 12, 0, 0, tzinfo=dt.timezone.utc)

    bvutils.now = _now


# ---------------------------------------------------------------------------
# invocation


class Obs(typ.NamedTuple):
    argv: tuple
    exit: int
    crashed: typ.Optional[str]
    stdout: str
    log: tuple  # ((level, message), ...)

    def logtext(self, level=None):
        return "\n".join(m for (lv, m) in self.log if level is None or lv == level)

    @property
    def old_version(self):
        return _find(r"Old Version: (.*)$", self)

    @property
    def new_version(self):
        return _find(r"New Version: (.*)$", self)

    @property
    def pep440(self):
        for line in self.stdout.splitlines():
            m = re.match(r"PEP440\s*: (.*)$", line)
            if m:
                return m.group(1)
        return None


def _find(rx, obs):
    for line in obs.stdout.splitlines():
        m = re.match(rx, line)
        if m:
            return m.group(1)
    for _lv, msg in obs.log:
        m = re.match(rx, msg)
        if m:
            return m.group(1)
    return None


def _run(thunk, argv) -> Obs:
    del _RECORDS[:]
    bvcli._VERBOSE = 0
    out = io.StringIO()
    err = io.StringIO()
    code, crashed = 0, None
    with contextlib.redirect_stdout(out), contextlib.redirect_stderr(err):
        try:
            thunk()
        except SystemExit as ex:
            c = ex.code
            code = c if isinstance(c, int) else (0 if c is None else 1)
        except click.exceptions.Exit as ex:
            code = ex.exit_code
        except click.ClickException as ex:
            code = ex.exit_code
            _RECORDS.append(("USAGE", ex.format_message()))
        except click.Abort:
            code = 1
        except BaseException as ex:  # what the real CLI turns into a traceback + status 1
            if isinstance(ex, KeyboardInterrupt):
                raise
            code, crashed = 1, type(ex).__name__ + ": " + _stable(str(ex))[:200]
    return Obs(tuple(argv), code, crashed, out.getvalue(), tuple((lv, _stable(msg)) for lv, msg in _RECORDS))


def _stable(text: str) -> str:
    """Observations must not depend on where the scratch directory lives or on object addresses."""
    try:
        cwd = os.getcwd()
    except OSError:
        cwd = None
    if cwd and cwd != "/":
        text = text.replace(os.path.realpath(cwd), "<cwd>").replace(cwd, "<cwd>")
    return re.sub(r"0x[0-9a-fA-F]{6,}", "0x...", text)


def cli(*args: str) -> Obs:
    """Run `bumpver <args>` in-process through click's argv parsing."""
    argv = list(args)
    return _run(lambda: bvcli.cli.main(args=argv, prog_name="bumpver", standalone_mode=False), argv)


def callback(cmd: str, **kwargs) -> Obs:
    """Run the body of a command without click's argv parsing (same code, cheaper)."""
    command = bvcli.cli.commands[cmd]
    return _run(lambda: command.callback(**kwargs), (cmd, tuple(sorted(kwargs.items(), key=repr))))


# ---------------------------------------------------------------------------
# files


def read_tree(root=".") -> typ.Dict[str, bytes]:
    out = {}
    for dirpath, dirnames, filenames in os.walk(root):
        dirnames[:] = sorted(d for d in dirnames if d not in (".git", ".hg"))
        for fn in sorted(filenames):
            if fn in (".git", ".hg") and dirpath == root:
                continue  # a gitfile (`.git` as a file: linked work tree, separate git dir) is repository plumbing, like the directory
            p = os.path.join(dirpath, fn)
            with open(p, "rb") as f:
                out[os.path.relpath(p, root)] = f.read()
    return out


def write_tree(files: typ.Dict[str, bytes], root="."):
    for rel, data in files.items():
        p = os.path.join(root, rel)
        d = os.path.dirname(p)
        if d and not os.path.isdir(d):
            os.makedirs(d)
        with open(p, "wb") as f:
            f.write(data if isinstance(data, bytes) else data.encode("utf-8"))


def mark_repo(kind="git", as_file=False):
    """Make the current directory look like a repository to bumpver: `.git/` (or `.hg/`), or - as_file - a gitfile."""
    if as_file:
        with open("." + kind, "w") as f:
            f.write("gitdir: /nonexistent/store/worktrees/wt\n")
    else:
        os.mkdir("." + kind)


def clear_dir(root="."):
    import shutil

    for name in os.listdir(root):
        p = os.path.join(root, name)
        if os.path.isdir(p) and not os.path.islink(p):
            shutil.rmtree(p)
        else:
            os.unlink(p)


def assert_impl_location():
    """The package under test must come from $BUMPVER_SRC (default /repo/src)."""
    import bumpver

    src = os.path.realpath(os.environ.get("BUMPVER_SRC", "/repo/src"))
    got = os.path.realpath(os.path.dirname(os.path.dirname(bumpver.__file__)))
    if got != src:
        raise RuntimeError(f"bumpver imported from {got}, expected {src}")
    return got


def src_fingerprint():
    """Hash of the implementation sources this process imported (recorded in evidence)."""
    import hashlib

    import bumpver

    d = os.path.dirname(bumpver.__file__)
    m = hashlib.sha256()
    for fn in sorted(os.listdir(d)):
        if fn.endswith(".py"):
            with open(os.path.join(d, fn), "rb") as f:
                m.update(fn.encode() + b"\0" + f.read())
    return m.hexdigest()[:16]


PY = sys.executable
