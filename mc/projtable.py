"""Project-table engine shared by C03, C04, C13 (and C06): projects are CONSTRUCTED from skeletons, so the
bytes expected after an update are known by construction, independently of bumpver's matcher."""
import itertools
import os
import re

import packaging.version as pv

import bumpver.v2patterns as v2patterns
import bumpver.v2version as v2version

from . import grammar, world
from .checks.c02 import vinfo_from
from .ref import model as M

# ---------------------------------------------------------------------------------------------------
# version patterns with (old, new) state pairs

D1 = M.cal_from_date(__import__("datetime").date(2021, 3, 7))
D2 = M.cal_from_date(__import__("datetime").date(2022, 11, 24))


def _st(pat, d, **kw):
    s = {}
    for f in dict.fromkeys(pat.fields):
        if f in M.CAL_FIELDS:
            s[f] = d[f]
        else:
            s[f] = kw.get(f, {"major": 1, "minor": 2, "patch": 3, "inc0": 4, "inc1": 5, "num": 0, "bid": "1001", "tag": "final"}[f])
    return s


def version_cases(tier):
    """[(Pat, label, old_state, new_state)] - every part changes / one part changes / optional groups appear or vanish."""
    texts = [
        "MAJOR.MINOR.PATCH", "vMAJOR.MINOR.PATCH[-TAG]", "vYYYY0M.BUILD[-TAG]", "YYYY.MM.INC0",
        "MAJOR.MINOR[.PATCH[PYTAGNUM]]", "YYYY.BUILD[PYTAGNUM]", "vYY.0M.0D[-TAG]", "YYYY.0W.PATCH",
    ]
    if tier == "thorough":
        texts += [
            "MAJOR[.MINOR[.PATCH]]", "vYYYY.BUILD[-TAG]", "YYYY.MM[.PATCH]", "GGGG.0V.MINOR[-TAGNUM]", "0Y.MM.DD.BLD",
            "vMAJOR.MINOR.PATCH[-TAGNUM]", "YYYYq", "YYYY.MM.DD-TAG", "MAJOR.MINOR.INC1", "YYYY.JJJ[.INC0]",
            "vYYYYw0W.BUILD[-TAG]", "MAJOR.MINOR.PATCH-TAG", "YYYY0M0D.PATCH[PYTAG[NUM]]", "YYYY.0M.PATCH[PYTAGNUM]",
        ]
        texts = [t for t in texts if t != "YYYYq"]
    out = []
    for t in texts:
        pat = grammar.Pat(M.parse_pattern(t))
        a = _st(pat, D1)
        # every part changes
        b = _st(pat, D2, major=2, minor=10, patch=11, inc0=9, inc1=12, num=2, bid="22000", tag="rc")
        out.append((pat, "all-parts", a, b))
        # one (last numeric) part changes
        c = dict(a)
        for f in reversed(pat.fields):
            if f in ("major", "minor", "patch", "inc0", "inc1", "bid"):
                c[f] = M.next_build(a[f]) if f == "bid" else a[f] + 9
                break
        else:
            c = _st(pat, D2)
        out.append((pat, "one-part", a, c))
        # optional groups appear / disappear
        z = _st(pat, D1, major=1, minor=0, patch=0, inc0=0, num=0, tag="final")
        nz = _st(pat, D1, major=1, minor=0, patch=1, inc0=1, num=1, tag="post")
        if M.render(pat.tree, z) != M.render(pat.tree, nz):
            out.append((pat, "groups-appear", z, nz))
            z2 = _st(pat, D2, major=2, minor=0, patch=0, inc0=0, num=0, tag="final")
            out.append((pat, "groups-vanish", nz, z2))
        # the new version carries the tag `preview` (accepted by TAG, rc under PEP 440)
        if "TAG" in pat.names:
            out.append((pat, "to-preview", dict(a, tag="alpha"), dict(b, tag="preview")))
        # all numeric parts zero before (partial patterns then render from all-zero parts)
        if any(f in pat.fields for f in ("major", "minor")) and "patch" in pat.fields:
            zz = _st(pat, D1, major=0, minor=0, patch=5)
            out.append((pat, "zero-major-minor", zz, dict(zz, patch=6)))
    good = []
    for pat, label, a, b in out:
        ta, tb = M.render(pat.tree, a), M.render(pat.tree, b)
        if M.recognise(pat.tree, ta) == a and M.recognise(pat.tree, tb) == b and ta != tb:
            good.append((pat, label, a, b))
    return good


# ---------------------------------------------------------------------------------------------------
# file patterns


def raw_pattern_alphabet(pat):
    """Raw file patterns as they would be written in the config, with a short id."""
    out = [
        ("bare", "{version}"),
        ("pep", "{pep440_version}"),
        ("quoted", 'version = "{version}"'),
        ("dunder", "__version__ = '{pep440_version}'"),
        ("tagged", "ver={version};"),
        ("peptag", "pep={pep440_version};"),
        ("anchored", "^release {version}$"),
    ]
    if "YYYY" in pat.names:
        out.append(("copyright", "Copyright (c) 2018-YYYY Vandelay"))
    if "MAJOR" in pat.names and "MINOR" in pat.names:
        out.append(("majmin", "rel-MAJOR.MINOR"))
    if "MAJOR" in pat.names:
        out.append(("maj", "api vMAJOR"))
    return out


class FilePattern:
    """One configured (raw) file pattern with reference tree (None for pep440: oracle by predicate)."""

    def __init__(self, pid, raw, pat):
        self.pid, self.raw, self.pat = pid, raw, pat
        self.is_pep = "{pep440_version}" in raw
        self.anchor_l = raw.startswith("^")
        self.anchor_r = raw.endswith("$")
        body = raw[1:] if self.anchor_l else raw
        body = body[:-1] if self.anchor_r else body
        self.body = body
        if not self.is_pep:
            self.tree = M.parse_pattern(body.replace("{version}", pat.text))
        else:
            self.prefix, self.suffix = body.split("{pep440_version}")

    def old_text(self, state):
        """Occurrence text for a state (pep440: what the implementation itself renders - input construction only)."""
        if not self.is_pep:
            return M.render(self.tree, state)
        derived = v2patterns.normalize_pattern(self.pat.text, "{pep440_version}")
        return self.prefix + v2version.format_version(vinfo_from(state), derived) + self.suffix

    def ref_search(self, line, state_texts):
        """Could this pattern match somewhere in `line`? (reference decision used to reject fillers/combos)"""
        if not self.is_pep:
            rx = M.compiled(self.tree)
            return rx.search(line) is not None
        # pep440 text: digits/dots/short tag between prefix and suffix
        rx = re.compile(re.escape(self.prefix) + r"[0-9]+(?:\.[0-9]+)*(?:[.]?(?:a|b|rc|post|dev)[0-9]+)?" + re.escape(self.suffix))
        return rx.search(line) is not None

    def check_new(self, text, new_state, new_version_text):
        """Is `text` a correct occurrence for the new state?  -> None or a problem string."""
        if not self.is_pep:
            want = M.render(self.tree, new_state)
            return None if text == want else f"expected {want!r}"
        if not (text.startswith(self.prefix) and text.endswith(self.suffix)):
            return "literal text around {pep440_version} damaged"
        inner = text[len(self.prefix) : len(text) - len(self.suffix) if self.suffix else None]
        try:
            pv.Version(new_version_text)
        except pv.InvalidVersion:
            return None  # the version itself is not PEP 440: {pep440_version} has no defined meaning (C15's scope)
        try:
            if pv.Version(inner) != pv.Version(new_version_text):
                return f"{inner!r} is not the PEP 440 form of {new_version_text!r}"
        except pv.InvalidVersion:
            return f"{inner!r} is not a PEP 440 version"
        return None


# ---------------------------------------------------------------------------------------------------
# files

EOLS = {"LF": "\n", "CRLF": "\r\n", "CR": "\r"}


class FileSpec:
    """lines: list of lines; a line is a list of segments ("t", text) | ("o", FilePattern).
    eols: one separator per line boundary (len(lines)-1) + final newline flag."""

    def __init__(self, name, patterns, lines, seps, final_sep=""):
        self.name, self.patterns, self.lines, self.seps, self.final_sep = name, patterns, lines, seps, final_sep

    def render_old(self, state):
        out = []
        for i, line in enumerate(self.lines):
            for seg in line:
                out.append(seg[1] if seg[0] == "t" else seg[1].old_text(state))
            out.append(self.seps[i] if i < len(self.seps) else self.final_sep)
        return "".join(out)

    def occurrences(self):
        return [(i, j, seg[1]) for i, line in enumerate(self.lines) for j, seg in enumerate(line) if seg[0] == "o"]

    def compare_new(self, content, new_state, new_version_text):
        """Walk the skeleton over `content`. -> list of (kind, detail): kind 'stale'/'wrong' for an occurrence,
        'bytes' for any byte outside occurrence spans that changed."""
        problems = []
        pos = 0
        nlines = len(self.lines)
        for i, line in enumerate(self.lines):
            for j, seg in enumerate(line):
                if seg[0] == "t":
                    if not content.startswith(seg[1], pos):
                        problems.append(("bytes", f"line {i + 1}: text outside the matched spans changed near {content[pos:pos + 30]!r}, expected {seg[1][:30]!r}"))
                        return problems
                    pos += len(seg[1])
                else:
                    fp = seg[1]
                    # the occurrence ends where the following skeleton text starts
                    nxt = None
                    for seg2 in line[j + 1 :]:
                        nxt = seg2[1] if seg2[0] == "t" else None
                        break
                    if nxt is None and j + 1 >= len(line):
                        nxt = self.seps[i] if i < len(self.seps) else self.final_sep
                        if nxt == "":
                            nxt = None
                    if nxt is None:
                        end = len(content) if j + 1 >= len(line) else None
                    else:
                        end = content.find(nxt, pos)
                    if end is None or end < 0:
                        problems.append(("bytes", f"line {i + 1}: cannot locate the end of occurrence {fp.pid}"))
                        return problems
                    text = content[pos:end]
                    why = fp.check_new(text, new_state, new_version_text)
                    if why:
                        problems.append(("occurrence", f"line {i + 1} pattern {fp.pid} ({fp.raw!r}): found {text!r}: {why}"))
                    pos = end
            sep = self.seps[i] if i < len(self.seps) else self.final_sep
            if not content.startswith(sep, pos):
                problems.append(("bytes", f"line {i + 1}: line separator changed: {content[pos:pos + 4]!r} instead of {sep!r}"))
                return problems
            pos += len(sep)
        if pos != len(content):
            problems.append(("bytes", f"trailing bytes changed: {content[pos:pos + 30]!r}"))
        return problems


def compatible(fps, state_a, state_b):
    """File patterns of one file must not match inside each other's occurrences (property: surrounding text does
    not itself match a configured pattern)."""
    for x, y in itertools.permutations(fps, 2):
        for s in (state_a, state_b):
            if x.ref_search(y.old_text(s), None):
                return False
    return True


# ---------------------------------------------------------------------------------------------------
# config files


def toml_str(s):
    if "'" not in s and "\n" not in s:
        return "'" + s + "'"
    return '"' + s.replace("\\", "\\\\").replace('"', '\\"') + '"'


def config_text(fmt, pat_text, version_text, entries, extra=""):
    """entries: list of (path-or-glob, [raw patterns]); the config file's own entry is implicit unless listed."""
    if fmt in ("bumpver.toml", "pyproject.toml"):
        sec = "tool.bumpver" if fmt == "pyproject.toml" else "bumpver"
        out = [f"[{sec}]", f'current_version = "{version_text}"', f'version_pattern = "{pat_text}"']
        if extra:
            out.append(extra)
        out += ["", f"[{sec}.file_patterns]"]
        for path, raws in entries:
            out.append(f'"{path}" = [')
            for r in raws:
                out.append(f"    {toml_str(r)},")
            out.append("]")
        return "\n".join(out) + "\n"
    out = ["[bumpver]", f"current_version = {version_text}", f"version_pattern = {pat_text}"]
    if extra:
        out.append(extra)
    out += ["", "[bumpver:file_patterns]"]
    for path, raws in entries:
        out.append(f"{path} =")
        for r in raws:
            out.append(f"    {r}")
    return "\n".join(out) + "\n"


def ini_expressible(raw):
    return not (raw.startswith(("#", ";", " ")) or raw.endswith(" ") or "\n" in raw or "%" in raw)


def read_config_version(fmt, content):
    m = re.search(r'^current_version = "?([^"\n]*)"?$', content, flags=re.M)
    return m.group(1) if m else None


class FixedPattern(FilePattern):
    """A file pattern whose old/new occurrence texts are given explicitly (legacy {..} patterns)."""

    def __init__(self, pid, raw, old_occurrence, new_occurrence):
        self.pid, self.raw, self.pat = pid, raw, None
        self.is_pep = False
        self.anchor_l = self.anchor_r = False
        self._old, self._new = old_occurrence, new_occurrence

    def old_text(self, state):
        return self._old

    def ref_search(self, line, state_texts):
        return self._old in line or self._new in line

    def check_new(self, text, new_state, new_version_text):
        return None if text == self._new else f"expected {self._new!r}"
