"""C02 - rendered versions are accepted by their own pattern and read back unchanged.

(a) date sweep: every calendar date of the range x every calendar block, rendered by the real format_version
    from the real cal_info(date), then parsed by the real recogniser and rendered again;
(b) structure sweep: patterns of the grammar x covering value states (numeric/BUILD/tag/num alphabets);
(c) reachability: chains of real `test` bumps with cycling flag sets - every announced version must be accepted
    as the next run's current version, by the config loader and by `show`.
Oracle: accepted in full; every part of the pattern reads back equal; second rendering byte-equal; the
reference recogniser accepts the text too and reads the same values.
"""
import datetime as dt
import os

import bumpver.v2version as v2version
import bumpver.version as bvversion

from .. import grammar, pool, world
from ..ref import model as M
from ..stats import Stats

ID = "C02"
LEVEL = "model_checking"
MIN_OUTCOMES = 3
MANIFEST = {
    'text': 'Round trip render -> recognise -> render on the real library entry points for EVERY calendar date of the stated range x every calendar block (quick 2001-2030+2097-2099 plus, for four-digit years, 1000-1001, 1899-1901, 1999-2000, 2399-2401, 9998-9999; thorough 1000-01-01..9999-12-31 for four-digit years, 2001-2099 for two-digit years), for grammar patterns x covering value states, for patterns with line anchors at their edges incl. a literal ^/$ next to the anchor (^P, P$, ^^P, P$$, `$Rev: P $$`), and along chains of real `test` bumps whose every output is fed back as input and through the config loader/`show`.',
    'note': 'values outside the alphabets, inherently ambiguous glued patterns and year-less calendar patterns are outside G',
    'technique': 'explicit-state exploration: exhaustive date/value enumeration + bump chains on the real code, round-trip invariant per state',
}
RULE = (
    "state = (pattern, part values); one evaluation = render/recognise/render on the real code; distinct non-trivial = distinct "
    "(pattern, rendered text)"
)
ASSUMPTIONS = ["reference part ranges transcribed from the README part tables (mc/ref/model.py)"]

FIELD_MAP = {"year": "year_y"}
BASE_VINFO = None


def base_vinfo():
    global BASE_VINFO
    if BASE_VINFO is None:
        BASE_VINFO = v2version.parse_version_info("1.2.3", "MAJOR.MINOR.PATCH")
    return BASE_VINFO


def vinfo_from(state, date=None):
    kw = {}
    if date is not None:
        kw.update(v2version.cal_info(date)._asdict())
    for f, v in state.items():
        if f in M.CAL_FIELDS:
            if date is None:
                kw[FIELD_MAP.get(f, f)] = v
        elif f == "tag":
            kw["tag"] = v
            kw["pytag"] = M.PYTAG[v]
        else:
            kw[f] = v
    return base_vinfo()._replace(**kw)


def culprit(tree, state):
    """The part whose rendered text is outside its documented range (names the finding)."""
    import re

    for n in M.parts_in_order(tree):
        t = M.part_text(n, state)
        if t == "" and M.is_zero(n, state):
            continue
        if not re.fullmatch(M.PARTS[n][1], t):
            return f"{n}={t}"
    return None


def round_trip(st, pat, state, date, case):
    """One state through the real render/recognise/render; returns rendered text."""
    st.evaluations += 1
    st.transitions += 1
    try:
        text = v2version.format_version(vinfo_from(state, date), pat.text)
    except Exception as ex:
        st.violation(f"C02:render-crash:{type(ex).__name__}", case, {"error": str(ex)})
        return None
    st.state(pat.text, text)
    ref_text = M.render(pat.tree, state)
    if text != ref_text:
        st.violation(f"C02:render-differs-from-documented-format:{_first_part_diff(pat, text, ref_text)}", case,
                     {"rendered": text, "documented": ref_text})
        st.outcomes["violation"] += 1
        return text
    try:
        parsed = v2version.parse_version_info(text, pat.text)
    except bvversion.PatternError as ex:
        c = culprit(pat.tree, state) or "?"
        st.violation(f"C02:render-not-accepted:{c}", case, {"rendered": text, "error": str(ex)[:160]})
        st.outcomes["violation"] += 1
        return text
    except Exception as ex:
        st.violation(f"C02:recogniser-crash:{type(ex).__name__}", case, {"rendered": text, "error": str(ex)[:160]})
        st.outcomes["violation"] += 1
        return text
    # every part that occurs in the pattern reads back equal
    for f in dict.fromkeys(pat.fields):
        want = state[f]
        got = getattr(parsed, FIELD_MAP.get(f, f))
        if got != want:
            st.violation(f"C02:part-reads-back-differently:{f}", case, {"rendered": text, "field": f, "read": got, "was": want})
            st.outcomes["violation"] += 1
            return text
    again = v2version.format_version(parsed, pat.text)
    if again != text:
        st.violation("C02:second-rendering-differs", case, {"first": text, "second": again})
        st.outcomes["violation"] += 1
        return text
    if M.recognise(pat.tree, text) != state:
        st.violation("C02:reference-recogniser-disagrees", case, {"rendered": text, "reference": M.recognise(pat.tree, text)})
        st.outcomes["violation"] += 1
        return text
    st.validated += 1
    return text


def _first_part_diff(pat, a, b):
    sa, sb = M.recognise(pat.tree, a), M.recognise(pat.tree, b)
    if sa is None or sb is None:
        return "unreadable"
    for f in pat.fields:
        if sa.get(f) != sb.get(f):
            return f
    return "text"


# ------------------------------------------------------------------------------------------------


def date_spans(tier, four_digit):
    if tier == "quick":
        spans = [(dt.date(2001, 1, 1), dt.date(2030, 12, 31)), (dt.date(2097, 1, 1), dt.date(2099, 12, 31))]
        if four_digit:
            # both ends of the four-digit range and the century years (1900 no leap year, 2000 and 2400 leap years)
            spans += [(dt.date(1000, 1, 1), dt.date(1001, 12, 31)), (dt.date(1899, 1, 1), dt.date(1901, 12, 31)), (dt.date(1999, 1, 1), dt.date(2000, 12, 31)),
                      (dt.date(2399, 1, 1), dt.date(2401, 12, 31)), (dt.date(9998, 1, 1), dt.date(9999, 12, 31))]
        return spans
    if four_digit:
        return [(dt.date(1000, 1, 1), dt.date(9999, 12, 31))]
    return [(dt.date(2001, 1, 1), dt.date(2099, 12, 31))]


def bounds(tier, seed):
    pats = structure_patterns(tier, seed)
    return {
        "calendar_blocks": len(grammar.calendar_blocks(True)) - 1,
        "date_spans_four_digit_years": [[a.isoformat(), b.isoformat()] for a, b in date_spans(tier, True)],
        "date_spans_two_digit_years": [[a.isoformat(), b.isoformat()] for a, b in date_spans(tier, False)],
        "structure_patterns": len(pats),
        "structure_seed_level": 2,
        "chains": {"patterns": len(CHAIN_PATTERNS), "length": 40 if tier == "quick" else 400},
    }


def structure_patterns(tier, seed):
    if tier == "thorough":
        pats, _ = grammar.generate("full")
        return pats
    star, _ = grammar.generate("star")
    full, _ = grammar.generate("full")
    known = {p.text for p in star}
    extra = [p for p in full if p.text not in known]
    nsl = 16
    return star + extra[seed % nsl :: nsl]


CHAIN_PATTERNS = grammar.README_PATTERNS + ["YYYY.0W.INC1[-TAG[NUM]]", "GGGG.0V.PATCH[PYTAG[NUM]]", "YY.JJJ.BLD-TAGNUM", "0Y0M0D.MINOR[.PATCH]"]
CHAIN_FLAGS = [
    {}, {"patch": True}, {"tag": "beta"}, {"tag_num": True}, {"minor": True, "tag": "rc"}, {"tag": "final"}, {"major": True},
    {"pin_date": True, "patch": True}, {"tag": "post", "pin_increments": True}, {"tag": "dev"}, {"tag_num": True, "patch": True},
]


def explore(tier, seed):
    chunks = []
    for name, tree in grammar.calendar_blocks(True):
        if not tree:
            continue
        text = M.tree_text(tree)
        four = text.startswith(("YYYY", "GGGG"))
        for (a, b) in date_spans(tier, four):
            # split long spans into pieces of <= 120 years for load balance
            start = a
            while start <= b:
                end = min(b, dt.date(min(9999, start.year + 119), 12, 31))
                chunks.append(("dates", text, start.isoformat(), end.isoformat()))
                if end.year >= 9999:
                    break
                start = dt.date(end.year + 1, 1, 1)
    pats = structure_patterns(tier, seed)
    for part in pool.split([p.text for p in pats], max(16, len(pats) // 40)):
        chunks.append(("structure", part))
    for p in CHAIN_PATTERNS:
        chunks.append(("chain", p, 40 if tier == "quick" else 400))
    chunks.append(("anchors", CHAIN_PATTERNS))
    chunks.append(("optional-week", None))
    return pool.run_chunks(run_chunk, chunks)


def run_chunk(chunk):
    st = Stats()
    world.set_today(dt.date(2033, 3, 3))
    if chunk[0] == "dates":
        _k, text, a, b = chunk
        for prefix in ("", "v"):
            pat = grammar.Pat(M.parse_pattern(prefix + text))
            fields = list(dict.fromkeys(pat.fields))
            d, end = dt.date.fromisoformat(a), dt.date.fromisoformat(b)
            one = dt.timedelta(days=1)
            while True:
                cal = M.cal_from_date(d)
                state = {f: cal[f] for f in fields}
                t = round_trip(st, pat, state, d, {"pattern": pat.text, "date": d.isoformat()})
                if d == end:
                    break
                d += one
            st.outcomes["dates-swept:" + ("4-digit-year" if text[0] in "YG" and text[1] == text[0] and text[:4] in ("YYYY", "GGGG") else "2-digit-year")] += 1
            st.observe((pat.text, a, b, t))
        if text == "YYYY.WW":
            st.sample({"date_sweep": text, "from": a, "to": b, "last_rendered": t})
    elif chunk[0] == "structure":
        for text in chunk[1]:
            pat = grammar.Pat(M.parse_pattern(text))
            n = 0
            for state in grammar.seeds(pat, level=2):
                if M.recognise(pat.tree, M.render(pat.tree, state)) != state:
                    st.counters["states_not_representable_in_pattern (e.g. week 53)"] += 1
                    continue
                if all(M.is_zero(n, state) for n in pat.names):
                    # no bump ever produces the all-zero state (a bump makes some part non-zero): not "reachable by bumping"
                    st.counters["all_zero_states_skipped_not_reachable_by_bumping"] += 1
                    continue
                d = grammar.seed_date(state) if any(f in M.CAL_FIELDS for f in pat.fields) else None
                t = round_trip(st, pat, state, None, {"pattern": text, "state": state})
                n += 1
            st.outcomes["structure-pattern"] += 1
            st.observe((text, n, t))
        st.sample({"structure_sweep_patterns": chunk[1][:3], "states_of_last": n})
    elif chunk[0] == "anchors":
        anchored(st, chunk[1])
    elif chunk[0] == "optional-week":
        optional_week(st)
    else:
        chain(st, chunk[1], chunk[2])
    return st


OPTIONAL_WEEK_PATTERNS = ["YYYY[.WW]", "YYYY[.UU]", "YYYY[.0W]", "YYYY[w0U]", "YY[.WW]", "vYYYY[wWW].BUILD[-TAG]", "YYYY[.WW[.PATCH]]", "GGGG[.VV]", "YYYY[.MM[.DD]]"]


def optional_week(st):
    """A calendar part inside an optional group: week 0 (the days of January before the first Monday/Sunday) is a value, not an absent
    part - the first ten and the last four days of every year 2001-2099."""
    for text in OPTIONAL_WEEK_PATTERNS:
        pat = grammar.Pat(M.parse_pattern(text))
        fields = list(dict.fromkeys(pat.fields))
        for year in range(2001, 2100):
            for d in [dt.date(year, 1, 1) + dt.timedelta(days=k) for k in range(10)] + [dt.date(year, 12, 28) + dt.timedelta(days=k) for k in range(4)]:
                cal = M.cal_from_date(d)
                state = {f: cal[f] for f in fields if f in cal}
                if "bid" in fields:
                    state["bid"] = "1001"
                if "tag" in fields:
                    state["tag"] = "final"
                if "patch" in fields:
                    state["patch"] = 0
                if M.recognise(pat.tree, M.render(pat.tree, state)) != state:
                    st.counters["states_not_representable_in_pattern (e.g. week 53)"] += 1
                    continue
                round_trip(st, pat, state, d, {"pattern": text, "date": d.isoformat()})
        st.outcomes["optional-calendar-group-swept"] += 1


# (pattern prefix, pattern suffix, literal text they stand for): only the very first ^ and the very last $ are anchors
ANCHOR_WRAPS = [("^", "", "", ""), ("", "$", "", ""), ("^", "$", "", ""), ("^^", "", "^", ""), ("", "$$", "", "$"), ("^^", "$$", "^", "$"),
                ("$Rev: ", " $$", "$Rev: ", " $"), ("a^", "$b", "a^", "$b"), ("^^^", "$$$", "^^", "$$")]


def anchored(st, patterns):
    """Patterns with line anchors at their edges, incl. a literal ^ / $ next to the anchor: what is rendered must be accepted by the
    pattern's own recogniser, read back equal and render again to the same text."""
    import bumpver.v2patterns as v2patterns

    for text in patterns:
        pat = grammar.Pat(M.parse_pattern(text))
        for state in grammar.seeds(pat, level=1):
            core = M.render(pat.tree, state)
            if M.recognise(pat.tree, core) != state or all(M.is_zero(n, state) for n in pat.names):
                continue
            for pre, suf, lpre, lsuf in ANCHOR_WRAPS:
                wrapped, want = pre + text + suf, lpre + core + lsuf
                case = {"pattern": wrapped, "version": want, "anchors": True}
                st.evaluations += 1
                st.transitions += 1
                st.state(wrapped, want)
                st.nontriv(wrapped, want)
                try:
                    parsed = v2version.parse_version_info(want, wrapped)
                    again = v2version.format_version(parsed, wrapped)
                    full = v2patterns.compile_pattern(wrapped).regexp.fullmatch(want) is not None
                except Exception as ex:
                    st.outcomes["violation"] += 1
                    st.violation(f"C02:anchored-pattern:{type(ex).__name__}:{pre}..{suf}", case, {"error": str(ex)[:160]})
                    continue
                st.observe((wrapped, want, again, full))
                if again != want or not full:
                    st.outcomes["violation"] += 1
                    st.violation(f"C02:anchored-pattern:rendering-not-accepted-or-not-reproduced:{pre}..{suf}", case, {"rendered_again": again, "fullmatch": full})
                    continue
                for f in dict.fromkeys(pat.fields):
                    if getattr(parsed, FIELD_MAP.get(f, f)) != state[f]:
                        st.outcomes["violation"] += 1
                        st.violation(f"C02:anchored-pattern:part-reads-back-differently:{f}", case, {"read": getattr(parsed, FIELD_MAP.get(f, f)), "was": state[f]})
                        break
                else:
                    st.validated += 1
                    st.outcomes["anchored-pattern:round-trip"] += 1


def chain(st, text, length):
    """`bumpver test` output fed back as its input; every announced version also through config loader + show."""
    pat = grammar.Pat(M.parse_pattern(text))
    state = grammar.seeds(pat)[0]
    cur = M.render(pat.tree, state)
    date = grammar.seed_date(state)
    d = pool.fresh_dir("c02")
    os.chdir(d)
    steps = 0
    for i in range(length):
        flags = dict(CHAIN_FLAGS[i % len(CHAIN_FLAGS)])
        for f in ("major", "minor", "patch"):
            if flags.get(f) and f.upper() not in pat.names:
                flags.pop(f)
        if not flags.get("pin_date"):
            date = date + dt.timedelta(days=(1, 3, 17, 45, 200)[i % 5])
            if date.year > 2098:
                break
            flags["date"] = date.isoformat()
        o = world.callback("test", old_version=cur, pattern=text, **flags)
        st.evaluations += 1
        st.transitions += 1
        if o.exit != 0:
            st.outcomes["chain:no-new-version"] += 1
            continue
        new = o.new_version
        case = {"pattern": text, "chain_from": M.render(pat.tree, state), "step": i, "version": new}
        # legal current version for the next run: test accepts it as old_version, config loader and show accept it
        world.clear_dir(".")
        world.write_tree({"bumpver.toml": f'[bumpver]\ncurrent_version = "{new}"\nversion_pattern = "{text}"\n'.encode()})
        o2 = world.cli("show", "--no-fetch")
        st.evaluations += 1
        shown = None
        for line in o2.stdout.splitlines():
            if line.startswith("Current Version: "):
                shown = line[len("Current Version: "):]
        ns = M.recognise(pat.tree, new)
        if o2.exit != 0 or shown != new:
            c = (culprit(pat.tree, ns) if ns else None) or _culprit_text(pat, new)
            st.violation(f"C02:announced-version-not-accepted-as-current-version:{c}", case, {"show_exit": o2.exit, "shown": shown, "log": o2.log[-2:]})
            st.outcomes["violation"] += 1
        else:
            st.validated += 1
            st.outcomes["chain:step"] += 1
        if ns is not None:
            round_trip(st, pat, ns, None, case)
        st.state(text, new)
        st.nontriv(text, new)
        st.observe((text, i, new))
        cur = new
        steps += 1
    if text in ("YYYY.BUILD[-TAG]", "MAJOR.MINOR.PATCH[PYTAGNUM]"):
        st.sample({"chain_pattern": text, "steps": steps, "end": cur})
    os.chdir("/")


def _culprit_text(pat, text):
    import re

    # which part of the rendered text is out of the documented range (by pieces between literals)
    nums = re.findall(r"[0-9]+", text)
    return "unreadable:" + ".".join(nums[:3])


def replay(case, st):
    world.set_today(dt.date(2033, 3, 3))
    if case.get("anchors"):
        anchored(st, CHAIN_PATTERNS)
        return
    pat = grammar.Pat(M.parse_pattern(case["pattern"]))
    if "date" in case:
        d = dt.date.fromisoformat(case["date"])
        cal = M.cal_from_date(d)
        round_trip(st, pat, {f: cal[f] for f in dict.fromkeys(pat.fields)}, d, case)
    elif "state" in case:
        round_trip(st, pat, case["state"], None, case)
    else:
        ns = M.recognise(pat.tree, case["version"])
        d = pool.fresh_dir("c02r")
        os.chdir(d)
        world.write_tree({"bumpver.toml": f'[bumpver]\ncurrent_version = "{case["version"]}"\nversion_pattern = "{case["pattern"]}"\n'.encode()})
        o2 = world.cli("show", "--no-fetch")
        st.observe((o2.exit, o2.stdout))
        if o2.exit != 0:
            st.violation("C02:announced-version-not-accepted-as-current-version:replay", case, {"show_exit": o2.exit})
        os.chdir("/")
