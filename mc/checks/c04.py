"""C04 - rewriting touches nothing but the matched spans.

Constructed projects (mc/projtable.py): filler alphabet {ASCII, accented, euro, astral code points, BOM, TAB, form
feed / control characters, regex metacharacters, trailing blanks} x line-ending regime {LF, CRLF, CR, three mixed}
x final newline {present, absent} x blank first/last lines x v2 and legacy patterns; bystander files next to the
project files.  The real `update` runs in-process (UTF-8) and as `python -m bumpver` in a child interpreter with
LC_ALL=C, UTF-8 mode off.  Every byte outside the occurrence spans must survive; bystanders keep bytes and mtime.
"""
import itertools
import os
import subprocess as sp
import sys

from .. import pool, projgen, world
from .. import projtable as pt
from ..ref import model as M
from ..stats import Stats
from . import c03

ID = "C04"
LEVEL = "model_checking"
MIN_OUTCOMES = 2
MANIFEST = {
    'text': 'Complete enumeration of the stated content table (11 filler flavours - text to the left and right of every occurrence and on the lines around it - incl. non-ASCII, astral, control and regex characters and text whose length changes under Unicode normalisation, case mapping or stripping of invisible characters x 6 line-ending regimes x final newline x BOM x blank edge lines x arrangements incl. occurrences at the very start/end of a file and single-line files x v2/legacy patterns; projects in which one glob entry is shared by three files and one of them is named again by another entry, with decoy text in the siblings; the config file itself carries non-ASCII text and, in CRLF projects, CRLF line endings): each project is updated by the real CLI in-process and, for the reduced table, again by `python -m bumpver` under LC_ALL=C with UTF-8 mode off; file bytes are compared with the skeleton they were constructed from, so any byte outside a matched span that changes is detected; bystander files keep bytes and mtime. A further chunk commits, tags and pushes through the fake VCS with every VCS step and each hook failing in turn after the rewrite, over all six line-ending regimes: each file must then be byte-identical either to what it was or to what the fault-free update writes. Another chunk starts `update` in sub-directories that hold files named like configured ones (three config formats): files the configuration does not name keep every byte.',
    'note': 'code points outside the alphabet and files beyond a few hundred bytes are not covered',
    'technique': 'exhaustive enumeration of a bounded file-content space executed on the real CLI (two locales), by-construction byte oracle',
}
RULE = (
    "one evaluation = one constructed project updated by the real CLI; distinct non-trivial = distinct (pattern, filler, regime, "
    "final newline, BOM, blank edges, arrangement) whose update exited 0 and whose every byte was compared"
)
ASSUMPTIONS = ["LC_ALL=C PYTHONUTF8=0 PYTHONCOERCECLOCALE=0 makes the child's default encoding ASCII (checked at start of the run)"]

REGIMES = ("LF", "CRLF", "CR", "CRLF+LF", "LF+CR", "CRLF+CR")


def legacy_cases():
    """(label, version_pattern, old version, new version, [FixedPattern])"""
    return [
        ("legacy-pycalver", "{pycalver}", "v202103.1001-beta", "v202211.1002",
         [pt.FixedPattern("v1version", "{version}", "v202103.1001-beta", "v202211.1002"),
          pt.FixedPattern("v1pep", "pep {pep440_version}", "pep 202103.1001b0", "pep 202211.1002")]),
        ("legacy-semver", "{semver}", "1.2.3", "1.2.10", [pt.FixedPattern("v1semver", '__version__ = "{version}"', '__version__ = "1.2.3"', '__version__ = "1.2.10"')]),
    ]


def bounds(tier, seed):
    return {"fillers": sorted(projgen.FILL), "regimes": list(REGIMES), "final_newline": [True, False], "bom": [False, True],
            "blank_edge_lines": [False, True], "version_cases": len(cases(tier)), "legacy_cases": len(legacy_cases()),
            "child_interpreter_env": {"LC_ALL": "C", "PYTHONUTF8": "0", "PYTHONCOERCECLOCALE": "0"}}


def cases(tier):
    vc = pt.version_cases(tier)
    keep = ("all-parts", "groups-vanish", "one-part") if tier == "thorough" else ("all-parts", "groups-vanish")
    vc = [c for c in vc if c[1] in keep]
    return vc if tier == "thorough" else [c for c in vc if c[0].text in ("vYYYY0M.BUILD[-TAG]", "MAJOR.MINOR[.PATCH[PYTAGNUM]]", "YYYY.0W.PATCH")]


def explore(tier, seed):
    chunks = [("v2", tier, i, fill) for i in range(len(cases(tier))) for fill in sorted(projgen.FILL)]
    chunks += [("legacy", tier, i, fill) for i in range(len(legacy_cases())) for fill in sorted(projgen.FILL)]
    chunks += [("locale", tier, i, None) for i in range(4)]
    chunks += [("vcsfail", tier, i, None) for i in range(2)]
    chunks.append(("subdir", tier, 0, None))
    return pool.run_chunks(run_chunk, chunks)


def content_table(fps_sets, fill, tier):
    """(layout id, arrangement label, FileSpec)"""
    for si, fps in enumerate(fps_sets):
        ids = "+".join(fp.pid for fp in fps)
        arrs = ["own-lines"] + (["edges", "single-line"] if len(fps) == 1 else []) + ([("one-line", tuple(range(len(fps)))), ("one-line", tuple(reversed(range(len(fps)))))] if len(fps) > 1 and not any(f.anchor_l or f.anchor_r for f in fps) else [])
        for arr in arrs:
            for regime in REGIMES:
                for final_nl in (True, False):
                    for bom, blank in ((False, False), (True, False), (False, True)):
                        if (bom or blank) and tier == "quick" and regime not in ("LF", "CRLF"):
                            continue
                        f = projgen.build_file("a.txt", fps, arr, fill, regime, final_nl, bom=bom, blank_edges=blank)
                        aname = arr if isinstance(arr, str) else "one-line" + str(arr[1])
                        yield (f"{ids}:{aname}:{fill}:{regime}:{'nl' if final_nl else 'nonl'}:{'bom' if bom else ''}{'blank' if blank else ''}",
                               f"{regime if '+' in regime else 'single-separator'}", f)


def shared_entry_projects(st, pat, label, old, new, fmt):
    """Several files reached through ONE glob entry, one of them named again by a later (or earlier) explicit entry with another
    pattern; the sibling files contain text that the other pattern WOULD match - it is not configured for them and must stay."""
    singles = [s_[0] for s_ in projgen.pattern_subsets(pat, 1) if not (s_[0].anchor_l or s_[0].anchor_r)]
    if fmt == "setup.cfg":
        singles = [fp for fp in singles if pt.ini_expressible(fp.raw)]
    done = 0
    for a, b in itertools.permutations(singles, 2):
        if not pt.compatible([a, b], old, new) or b.old_text(old) == b.old_text(new):
            continue  # (the explicit entry's pattern must change with the bump, otherwise a rewrite of the decoy would not show)
        decoy = "decoy: " + b.old_text(old) + " (not configured for this file)"
        if a.ref_search(decoy, None):
            continue
        for order in ("glob-first", "explicit-first"):
            fx = projgen.build_file("src/x.txt", [a, b], "own-lines", "ascii", "LF", True)
            fy = projgen.build_file("src/y.txt", [a], "own-lines", "ascii", "CRLF", True, near_miss=[decoy])
            fz = projgen.build_file("src/z.txt", [a], ("repeat", 2), "ascii", "LF", False, near_miss=[decoy])
            ents = [("src/*.txt", [a.raw]), ("src/x.txt", [b.raw])]
            if order == "explicit-first":
                ents.reverse()
            # look-alike files that the glob `src/*.txt` does NOT name: one level further down, next to it with another suffix, in a
            # sibling directory, and a hidden one
            twin = fx.render_old(old).encode("utf-8")
            others = {"src/deep/x.txt": twin, "src/deep/er/x.txt": twin, "src/x.txt.bak": twin, "src2/x.txt": twin, "src/.x.txt.swp": twin, "x.txt": twin,
                      # names a careless "write to a temporary file, then rename" would use
                      "src/x.txt.tmp": twin, "src/y.txt.tmp": b"keep me\n", "src/x.txt~": twin, "src/.x.txt.tmp": twin, "src/x.txt.new": twin, "src/x.txt.orig": twin,
                      fmt + ".tmp": b"# not the config\n", fmt + "~": b"# not the config\n", fmt + ".bak": b"# not the config\n"}
            c03.run_project(st, pat, label, old, new, fmt, f"shared-entry:{a.pid}+{b.pid}:{order}", "glob-entry-shared-by-several-files", [fx, fy, fz], ents, False,
                            want=("bytes", "occurrence"), prefix="C04", extra_files=others)
        done += 1
        if done >= 3:
            break


def fps_sets_for(pat, old, new, fmt):
    subsets = [s for s in projgen.pattern_subsets(pat, 2) if pt.compatible(s, old, new)]
    if fmt == "setup.cfg":
        subsets = [s for s in subsets if all(pt.ini_expressible(fp.raw) for fp in s)]
    singles = [s for s in subsets if len(s) == 1][:3]
    pairs = [s for s in subsets if len(s) == 2][:2]
    return singles + pairs


def run_chunk(chunk):
    import datetime as dt

    kind, tier, idx, fill = chunk
    st = Stats()
    world.set_today(dt.date(2033, 3, 3))
    d = pool.fresh_dir("c04")
    os.chdir(d)
    if kind == "v2":
        pat, label, old, new = cases(tier)[idx]
        fmt = "bumpver.toml" if idx % 2 == 0 else "setup.cfg"
        n = 0
        for lid, arrangement, f in content_table(fps_sets_for(pat, old, new, fmt), fill, tier):
            c03.run_project(st, pat, label, old, new, fmt, lid, arrangement, [f], [("a.txt", [fp.raw for fp in f.patterns])], False,
                            want=("bytes",), prefix="C04", cfg_eol="\r\n" if ":CRLF:" in lid else "\n")  # a CRLF project has a CRLF config file
            n += 1
        if fill == "ascii":
            shared_entry_projects(st, pat, label, old, new, fmt)
        if idx == 0 and fill == "astral":
            st.sample({"pattern": pat.text, "filler": fill, "projects": n, "last_layout": lid})
    elif kind == "legacy":
        label, vp, oldv, newv, fps = legacy_cases()[idx]
        for lid, arrangement, f in content_table([fps[:1], fps] if len(fps) > 1 else [fps], fill, tier):
            legacy_project(st, label, vp, oldv, newv, lid, arrangement, f)
    elif kind == "vcsfail":
        failing_vcs_step(st, tier, idx)
    elif kind == "subdir":
        run_from_subdirectory(st)
    else:
        locale_pass(st, tier, idx)
    os.chdir("/")
    return st


def run_from_subdirectory(st):
    """`update` started in a sub-directory of the project (which has no configuration of its own) that holds files NAMED like configured
    ones: whether the command refuses or finds the project's configuration, the paths of the configuration are the project's - the
    look-alike files of the sub-directory are not configured and keep every byte."""
    for fmt in ("bumpver.toml", "setup.cfg", "pyproject.toml"):
        for sub in ("docs", "docs/api", "src/pkg"):
            for regime, eol in (("LF", "\n"), ("CRLF", "\r\n")):
                body = ("# d\u00e9mo\u20ac" + eol + "ver=1.2.3;" + eol + "end" + eol).encode("utf-8")
                cfg = pt.config_text(fmt, "MAJOR.MINOR.PATCH", "1.2.3", [("README.md", ["ver={version};"]), ("src/*.txt", ["ver={version};"])])
                tree = {fmt: cfg.encode(), "README.md": body, "src/a.txt": body, "bystander.txt": body,
                        sub + "/README.md": body, sub + "/src/a.txt": body, sub + "/notes.txt": body}
                base = pool.fresh_dir("c04sub")
                os.chdir(base)
                world.write_tree(tree)
                os.chdir(os.path.join(base, sub))
                try:
                    o = world.cli("update", "--no-fetch", "--ignore-vcs-tag", "--patch")
                finally:
                    os.chdir(base)
                after = world.read_tree(".")
                st.evaluations += 1
                st.transitions += 1
                case = {"subdir": sub, "format": fmt, "regime": regime}
                st.observe((case, o.exit, o.crashed, sorted(after.items())))
                st.state("subdir", fmt, sub, regime)
                st.nontriv("subdir", fmt, sub, regime)
                touched = sorted(k for k in set(tree) | set(after) if k.startswith(sub + "/") and after.get(k) != tree.get(k))
                other = sorted(k for k in set(tree) | set(after) if not k.startswith(sub + "/") and k not in (fmt, "README.md", "src/a.txt") and after.get(k) != tree.get(k))
                if touched or other:
                    st.outcomes["violation"] += 1
                    st.violation(f"C04:unconfigured-file-rewritten:update-started-in-a-sub-directory:{fmt}", case, {"files": touched + other, "exit": o.exit, "log": o.log[-2:]})
                else:
                    st.validated += 1
                    st.outcomes["subdir:look-alike-files-kept" + (":refused" if o.exit != 0 else ":updated")] += 1
    os.chdir("/")


VCS_FAULTS = (("add", 0), ("commit", 0), ("commit", 0, "error: gpg failed to sign the data\nfatal: failed to write commit object\n"), ("tag", 0), ("push", 0),
              "pre-hook-fails", "post-hook-fails")


def failing_vcs_step(st, tier, idx):
    """An update that commits, tags and pushes, with each VCS step (and each hook) failing in turn AFTER the files were rewritten: whatever
    the tool then does with the files (leave them rewritten, put them back), every byte outside the matches stays - each file is, byte for
    byte, either what it was or what the fault-free update writes."""
    from .. import fakevcs

    pat, label, old, new = cases(tier)[idx]
    new_text = M.render(pat.tree, new)
    fps = fps_sets_for(pat, old, new, "bumpver.toml")[0]
    for fill in ("ascii", "euro"):
        for regime in REGIMES:
            for final_nl in (True, False):
                f = projgen.build_file("a.txt", fps, "own-lines", fill, regime, final_nl)
                lid = f"vcs-step-fails:{fps[0].pid}:{fill}:{regime}:{'nl' if final_nl else 'nonl'}"
                tmp = Stats()
                o, after_ok, tree = c03.run_project(tmp, pat, label, old, new, "bumpver.toml", lid, "vcs-step-fails", [f], [("a.txt", [fp.raw for fp in f.patterns])], False,
                                                    want=("bytes",), prefix="C04", cfg_eol="\r\n" if regime == "CRLF" else "\n")
                st.merge(tmp)
                if o is None or o.exit != 0:
                    continue
                for fault in VCS_FAULTS:
                    world.clear_dir(".")
                    world.write_tree(tree)
                    world.write_tree({"pre.sh": b"#!/bin/sh\n", "post.sh": b"#!/bin/sh\n"})
                    world.mark_repo("git")
                    hooks = {"pre.sh": (3, b"", b"no\n") if fault == "pre-hook-fails" else (0, b"", b""), "post.sh": (3, b"", b"no\n") if fault == "post-hook-fails" else (0, b"", b"")}
                    fake = fakevcs.install(fakevcs.FakeVCS("git", tags_all=[], status=[], remote="upstream", hooks=hooks, fail=fault if isinstance(fault, tuple) else None))
                    try:
                        o2 = world.cli("update", "--no-fetch", "--ignore-vcs-tag", "--set-version", new_text, "--commit", "--tag-commit", "--push",
                                       "--pre-commit-hook", "pre.sh", "--post-commit-hook", "post.sh")
                    finally:
                        fakevcs.uninstall()
                    st.evaluations += 1
                    st.transitions += 1
                    after = world.read_tree(".")
                    fname = fault if isinstance(fault, str) else fault[0] + ("(real stderr)" if len(fault) > 2 else "")
                    case = {"pattern": pat.text, "states": label, "layout": lid, "format": "bumpver.toml", "vcs_fault": fname}
                    st.observe((case, o2.exit, o2.crashed, sorted(after.items())))
                    st.state(sorted(after.items()), fname)
                    if o2.exit == 0:
                        st.counters["vcs_fault_not_reached_or_tolerated"] += 1
                    bad = [k for k in ("a.txt", "bumpver.toml", "bystander.txt") if after.get(k) not in (tree.get(k), after_ok.get(k))]
                    if bad:
                        st.outcomes["violation"] += 1
                        st.violation(f"C04:bytes:after-failed-vcs-step:{fname}:{regime if '+' in regime or regime != 'LF' else 'LF'}", case,
                                     {"files": bad, "exit": o2.exit, "content_after": {k: after.get(k, b"")[:200] for k in bad}})
                    else:
                        st.validated += 1
                        st.nontriv(case)
                        st.outcomes["bytes-kept-after-failed-vcs-step"] += 1


def legacy_project(st, label, vp, oldv, newv, lid, arrangement, f, env=None):
    cfg = f'[bumpver]\ncurrent_version = "{oldv}"\nversion_pattern = "{vp}"\n\n[bumpver.file_patterns]\n"a.txt" = [\n' + "".join(f"    {pt.toml_str(fp.raw)},\n" for fp in f.patterns) + "]\n"
    tree = {"bumpver.toml": cfg.encode(), "a.txt": f.render_old(None).encode("utf-8"), "bystander.txt": (oldv + "\n").encode()}
    world.clear_dir(".")
    world.write_tree(tree)
    o = world.cli("update", "--no-fetch", "--ignore-vcs-tag", "--set-version", newv)
    st.evaluations += 1
    st.transitions += 1
    after = world.read_tree(".")
    case = {"legacy": label, "layout": lid}
    st.observe((case, o.exit, sorted(after.items())))
    st.state(sorted(after.items()))
    if o.exit != 0:
        st.outcomes["update-refused:legacy"] += 1
        st.counters["refused:" + ((o.logtext("ERROR").splitlines() or ["?"])[0][:60])] += 1
        return
    st.validated += 1
    st.nontriv(case)
    st.outcomes["updated:legacy"] += 1
    content = after["a.txt"].decode("utf-8", errors="surrogateescape")
    for k, why in f.compare_new(content, None, newv):
        if k == "bytes":
            st.outcomes["violation"] += 1
            st.violation(f"C04:bytes:legacy:{arrangement}", case, {"problem": why, "content_after": after["a.txt"][:300]})
    if after["bystander.txt"] != tree["bystander.txt"]:
        st.violation("C04:bystander:legacy", case, {})


CHILD_ENV = {"LC_ALL": "C", "LANG": "C", "PYTHONUTF8": "0", "PYTHONCOERCECLOCALE": "0", "PYTHONIOENCODING": ""}


def child(args, cwd):
    env = dict(os.environ)
    env.update(CHILD_ENV)
    env.pop("PYTHONIOENCODING", None)
    env["PYTHONPATH"] = os.environ.get("BUMPVER_SRC", "/repo/src")
    return sp.run([sys.executable, "-m", "bumpver"] + args, cwd=cwd, env=env, stdout=sp.PIPE, stderr=sp.PIPE)


def locale_pass(st, tier, part):
    """The reduced table again through `python -m bumpver` under an ASCII locale; bytes must equal the UTF-8 in-process run."""
    import datetime as dt

    env = dict(os.environ)
    env.update(CHILD_ENV)
    probe = sp.run([sys.executable, "-c", "import locale,sys;print(locale.getpreferredencoding(False), sys.flags.utf8_mode)"],
                   env=env, stdout=sp.PIPE, text=True).stdout.split()
    if not probe or probe[0].upper().replace("-", "") not in ("ANSI_X3.41968", "ASCII", "US-ASCII".replace("-", ""), "646") or probe[1] != "0":
        if not probe or "UTF" in probe[0].upper():
            raise pool.HarnessError(f"child interpreter is not in an ASCII locale: {probe}")
    vc = cases(tier)[:2]
    todo = []
    for ci, (pat, label, old, new) in enumerate(vc):
        fps = fps_sets_for(pat, old, new, "bumpver.toml")
        for fill in sorted(projgen.FILL):
            for regime in REGIMES:
                for final_nl in (True, False):
                    todo.append((pat, label, old, new, fps[0], fill, regime, final_nl))
    todo = todo[part::4]
    today = dt.date(2033, 3, 3)
    for pat, label, old, new, fps, fill, regime, final_nl in todo:
        f = projgen.build_file("a.txt", fps, "own-lines", fill, regime, final_nl, bom=(fill == "accent"))
        lid = f"locale:{fps[0].pid}:{fill}:{regime}:{'nl' if final_nl else 'nonl'}"
        tmp = Stats()
        o, after_utf8, tree = c03.run_project(tmp, pat, label, old, new, "bumpver.toml", lid, "locale", [f], [("a.txt", [fp.raw for fp in f.patterns])], False,
                                              want=("bytes",), prefix="C04")
        st.merge(tmp)
        if o is None:
            continue
        world.clear_dir(".")
        world.write_tree(tree)
        mt = os.stat("bystander.txt").st_mtime_ns
        r = child(["update", "--no-fetch", "--ignore-vcs-tag", "--set-version", M.render(pat.tree, new)], ".")
        st.evaluations += 1
        st.transitions += 1
        after_c = world.read_tree(".")
        case = {"pattern": pat.text, "states": label, "layout": lid, "locale": "C"}
        st.observe((case, r.returncode, sorted(after_c.items())))
        if (r.returncode == 0) != (o.exit == 0) or after_c != after_utf8:
            st.outcomes["violation"] += 1
            diff = [k for k in set(after_c) | set(after_utf8) if after_c.get(k) != after_utf8.get(k)]
            st.violation(f"C04:ascii-locale-differs:{fill}", case, {"exit_utf8": o.exit, "exit_c_locale": r.returncode, "files_differ": diff,
                                                                  "stderr": r.stderr[-300:]})
        else:
            st.validated += 1
            st.outcomes["ascii-locale-identical"] += 1
        if os.stat("bystander.txt").st_mtime_ns != mt:
            st.violation("C04:bystander-touched", case, {})


def replay(case, st):
    import datetime as dt

    world.set_today(dt.date(2033, 3, 3))
    d = pool.fresh_dir("c04r")
    os.chdir(d)
    try:
        if case.get("locale"):
            for part in range(4):
                locale_pass(st, "thorough", part)
            return
        if case.get("subdir"):
            run_from_subdirectory(st)
            return
        if case.get("vcs_fault"):
            for tier in ("quick", "thorough"):
                for idx, (pat, label, _o, _n) in enumerate(cases(tier)[:2]):
                    if pat.text == case["pattern"] and label == case["states"]:
                        failing_vcs_step(st, tier, idx)
                        return
            return
        for tier in ("quick", "thorough"):
            if "legacy" in case:
                for label, vp, oldv, newv, fps in legacy_cases():
                    if label == case["legacy"]:
                        for fill in sorted(projgen.FILL):
                            for lid, arrangement, f in content_table([fps[:1], fps] if len(fps) > 1 else [fps], fill, tier):
                                if lid == case["layout"]:
                                    legacy_project(st, label, vp, oldv, newv, lid, arrangement, f)
                                    return
                continue
            for idx, (pat, label, old, new) in enumerate(cases(tier)):
                if pat.text == case["pattern"] and label == case["states"]:
                    for fmt in ("bumpver.toml", "setup.cfg"):
                        if fmt != case.get("format", fmt):
                            continue
                        for fill in sorted(projgen.FILL):
                            for lid, arrangement, f in content_table(fps_sets_for(pat, old, new, fmt), fill, tier):
                                if lid == case["layout"]:
                                    c03.run_project(st, pat, label, old, new, fmt, lid, arrangement, [f], [("a.txt", [fp.raw for fp in f.patterns])],
                                                    False, want=("bytes",), prefix="C04")
                                    return
    finally:
        os.chdir("/")
