"""C15 - {pep440_version} always denotes the same version as {version}.

Space: grammar patterns (prefix '' and 'v') x covering value states incl. every tag x NUM; only states whose
version text is PEP 440-valid (packaging) are in scope.  Library level on the whole space (derived pattern,
rendered text, derived search regex), CLI level on README/core patterns (file written by `update` next to a
{version} occurrence; PEP440 line of `test`).
"""
import os
import re

import packaging.version as pv

import bumpver.v2patterns as v2patterns
import bumpver.v2version as v2version
import bumpver.version as bvversion

from .. import grammar, pool, world
from ..ref import model as M
from ..stats import Stats
from .c02 import vinfo_from

ID = "C15"
LEVEL = "model_checking"
MIN_OUTCOMES = 3
MANIFEST = {
    'text': 'For every pattern of the grammar set and every covering state whose version text is PEP 440-valid, the text the real code renders for {pep440_version} is parsed by packaging and must equal the version (release, pre/post/dev kind and number), match the derived search pattern in full, agree with to_pep440/`PEP440` line, and be in the README normal form; on README/core patterns the same is observed in files written by `update` (one occurrence per line, both placeholders in one pattern, four occurrences on one line; one transition ends in the tag `preview`) and in `test` output, and in `show` when the current version comes from a VCS tag that is ahead of the config.',
    'note': 'separators other than . - _ and none are outside G; versions that are not PEP 440 are out of scope (counted)',
    'technique': 'explicit-state exploration of (pattern, state) space on the real code against packaging.version as reference',
}
RULE = (
    "state = (pattern, part values); evaluation = derive + render + match on the real code; in scope iff the {version} text is "
    "PEP 440-valid; distinct non-trivial = distinct in-scope (pattern, version text)"
)
ASSUMPTIONS = ["packaging.version 26.3 decides PEP 440 validity and equality"]

TAG_SHORT = {"alpha": "a", "beta": "b", "rc": "rc", "post": "post", "dev": "dev"}


def pattern_set(tier, seed):
    if tier == "thorough":
        pats, flt = grammar.generate("full")
        return pats, flt
    star, flt = grammar.generate("star")
    full, _ = grammar.generate("full")
    known = {p.text for p in star}
    extra = [p for p in full if p.text not in known]
    nsl = 16
    return star + extra[seed % nsl :: nsl], flt


def bounds(tier, seed):
    pats, flt = pattern_set(tier, seed)
    return {"patterns": len(pats), "seed_level": 2, "cli_patterns": len(cli_patterns()),
            "filtered_out_of_grammar": dict(flt), "quick_slice_of_full_set": f"{seed % 16} of 16" if tier == "quick" else "all"}


def cli_patterns():
    core, _ = grammar.generate("core", prefixes=("", "v"))
    n = len(grammar.README_PATTERNS)
    return [p.text for p in core[:n]] + [p.text for p in core[n::9]]


def explore(tier, seed):
    pats, _ = pattern_set(tier, seed)
    level = 2
    chunks = [("lib", part, level) for part in pool.split([p.text for p in pats], max(16, len(pats) // 30))]
    chunks += [("cli", part, 1) for part in pool.split(cli_patterns(), 16)]
    return pool.run_chunks(run_chunk, chunks)


def normal_form_problem(w, vref):
    """README normal form: no v, no leading zeros in dot-separated components after the first, short tag + number."""
    if w[:1] in "vV":
        return "v-prefix"
    m = re.match(r"^([0-9]+(?:\.[0-9]+)*)(.*)$", w)
    if not m:
        return "no-release"
    comps = m.group(1).split(".")
    for c in comps[1:]:
        if c != str(int(c)):
            return "leading-zero"
    rest = m.group(2)
    want = None
    if vref.pre:
        want = (vref.pre[0], vref.pre[1])
    elif vref.post is not None:
        want = ("post", vref.post)
    elif vref.dev is not None:
        want = ("dev", vref.dev)
    if want is None:
        return None if rest == "" else "unexpected-suffix"
    mm = re.fullmatch(r"[.\-_]?(a|b|rc|post|dev)([0-9]+)", rest)
    if not mm:
        return "tag-not-short-form-plus-number"
    if (mm.group(1), int(mm.group(2))) != want:
        return "tag-or-number-differs"
    return None


def lib_check(st, pat, state):
    """-> (version text, pep440 text) or None"""
    case = {"pattern": pat.text, "state": state}
    vinfo = vinfo_from(state)
    v = v2version.format_version(vinfo, pat.text)
    st.evaluations += 1
    st.transitions += 1
    st.state(pat.text, v)
    try:
        vref = pv.Version(v)
    except pv.InvalidVersion:
        st.outcomes["out-of-scope:version-not-pep440"] += 1
        return None
    shape = shape_of(pat)
    try:
        derived = v2patterns.normalize_pattern(pat.text, "{pep440_version}")
        w = v2version.format_version(vinfo, derived)
        rx = v2patterns.compile_pattern(pat.text, "{pep440_version}").regexp
    except Exception as ex:
        st.violation(f"C15:derivation-crash:{type(ex).__name__}:{shape}", case, {"error": str(ex)[:200]})
        st.outcomes["violation"] += 1
        return None
    st.validated += 1
    st.nontriv(pat.text, v)
    detail = {"version": v, "pep440_text": w, "derived_pattern": derived}
    bad = None
    try:
        wref = pv.Version(w)
    except pv.InvalidVersion:
        bad = "written-text-not-pep440"
    else:
        if wref != vref:
            bad = "written-text-is-a-different-version"
        elif not rx.fullmatch(w):
            bad = "not-accepted-by-derived-search-pattern"
        elif pv.Version(bvversion.to_pep440(v)) != wref:
            bad = "differs-from-to_pep440"
        else:
            nf = normal_form_problem(w, vref)
            if nf:
                bad = "not-normal-form:" + nf
    st.observe((pat.text, v, w, bad))
    if bad:
        st.violation(f"C15:{bad}:{shape}", case, detail)
        st.outcomes["violation"] += 1
        return None
    st.outcomes["ok"] += 1
    return v, w


def shape_of(pat):
    """Coarse shape of the pattern: which tag block and whether padded parts occur (names the rule, not the input)."""
    names = set(pat.names)
    tagpart = "PYTAG" if "PYTAG" in names else "TAG" if "TAG" in names else "notag"
    num = "+NUM" if "NUM" in names else ""
    nested = "+nested" if re.search(r"\[[^\]]*\[", pat.text) else ""
    padded = "+padded" if names & {"0M", "0D", "00J", "0W", "0U", "0V", "0Y", "0G", "BUILD"} else ""
    return tagpart + num + nested + padded


def run_chunk(chunk):
    kind, texts, level = chunk
    st = Stats()
    import datetime as dt

    world.set_today(dt.date(2033, 3, 3))
    if kind == "lib":
        for text in texts:
            pat = grammar.Pat(M.parse_pattern(text))
            for state in grammar.seeds(pat, level=level):
                if M.recognise(pat.tree, M.render(pat.tree, state)) != state or all(M.is_zero(n, state) for n in pat.names):
                    st.counters["states_skipped_not_representable_or_all_zero"] += 1
                    continue
                r = lib_check(st, pat, state)
            if text in ("vYYYY0M.BUILD[-TAG]", "MAJOR.MINOR.PATCH[PYTAGNUM]") and r:
                st.sample({"pattern": text, "version": r[0], "pep440_version": r[1]})
    else:
        d = pool.fresh_dir("c15")
        os.chdir(d)
        for text in texts:
            cli_check(st, grammar.Pat(M.parse_pattern(text)))
        os.chdir("/")
    return st


CFG = (
    '[bumpver]\ncurrent_version = "{v}"\nversion_pattern = "{p}"\n\n[bumpver.file_patterns]\n'
    '"bumpver.toml" = [\'current_version = "{{version}}"\']\n"a.txt" = ["ver={{version}};", "pep={{pep440_version}};"]\n'
    # (both placeholders inside ONE search pattern, as in a download URL)
    '"c.txt" = ["get/{{version}}/demo-{{pep440_version}}.tgz"]\n'
    # (several occurrences of both texts on ONE line: replacements that change the length shift the later ones)
    '"d.txt" = ["ver={{version}};", "pep={{pep440_version}};"]\n'
)
DLINE = "ver={v}; and ver={v}; then pep={w}; and pep={w}; end\n"


def cli_check(st, pat):
    states = [s for s in grammar.seeds(pat, level=1)
              if M.recognise(pat.tree, M.render(pat.tree, s)) == s and not all(M.is_zero(n, s) for n in pat.names)]
    prev = None
    shape = shape_of(pat)
    if "TAG" in pat.names:
        # TAG also accepts `preview` (PEP 440: rc): make sure one transition ENDS in it, from the alpha state with the same numbers
        for i, s_ in enumerate(states):
            if s_.get("tag") == "alpha":
                states.insert(i + 1, dict(s_, tag="preview"))
                break
    for state in states:
        tmp = Stats()
        r = lib_check(tmp, pat, state)
        if r is None:
            prev = None
            continue
        v, w = r
        if prev is not None and prev[0] != v:
            ov, ow = prev
            world.clear_dir(".")
            world.write_tree({"bumpver.toml": CFG.format(v=ov, p=pat.text).encode(), "a.txt": f"ver={ov};\npep={ow};\n".encode(),
                              "c.txt": f"get/{ov}/demo-{ow}.tgz\n".encode(), "d.txt": DLINE.format(v=ov, w=ow).encode()})
            o = world.cli("update", "--no-fetch", "--ignore-vcs-tag", "--set-version", v)
            st.evaluations += 1
            st.transitions += 1
            case = {"pattern": pat.text, "old": ov, "new": v, "cli": "update"}
            if o.exit == 0:
                st.validated += 1
                body = world.read_tree(".")["a.txt"].decode("utf-8", "replace")
                m = re.fullmatch(r"ver=(.*);\npep=(.*);\n", body)
                written = m.group(2) if m else None
                st.observe((pat.text, ov, v, written))
                ok = False
                try:
                    ok = written is not None and pv.Version(written) == pv.Version(v) and normal_form_problem(written, pv.Version(v)) is None
                except pv.InvalidVersion:
                    ok = False
                cbody = world.read_tree(".")["c.txt"].decode("utf-8", "replace")
                mc_ = re.fullmatch(r"get/(.*)/demo-(.*)\.tgz\n", cbody)
                try:
                    okc = bool(mc_) and mc_.group(1) == v and pv.Version(mc_.group(2)) == pv.Version(v) and normal_form_problem(mc_.group(2), pv.Version(v)) is None
                except pv.InvalidVersion:
                    okc = False
                if not okc:
                    st.violation(f"C15:file-written-by-update:both-placeholders-in-one-pattern:{shape}", case, {"file": cbody, "expected_pep440": w})
                    st.outcomes["violation"] += 1
                dbody = world.read_tree(".")["d.txt"].decode("utf-8", "replace")
                md = re.fullmatch(r"ver=(.*?); and ver=(.*?); then pep=(.*?); and pep=(.*?); end\n", dbody)
                try:
                    okd = bool(md) and md.group(1) == v and md.group(2) == v and all(
                        pv.Version(g) == pv.Version(v) and normal_form_problem(g, pv.Version(v)) is None for g in (md.group(3), md.group(4)))
                except pv.InvalidVersion:
                    okd = False
                if not okd:
                    st.violation(f"C15:file-written-by-update:several-occurrences-on-one-line:{shape}", case, {"file": dbody, "expected_pep440": w})
                    st.outcomes["violation"] += 1
                if not ok or (m and m.group(1) != v):
                    st.violation(f"C15:file-written-by-update:{shape}", case, {"file": body, "expected_pep440": w})
                    st.outcomes["violation"] += 1
                else:
                    st.outcomes["cli-update-ok"] += 1
            elif "No match for pattern" in o.logtext("ERROR") or "No patterns matched" in o.logtext("ERROR") or o.crashed:
                # the files were written from the same renderings: a search pattern that does not find them does not accept its own text
                st.outcomes["violation"] += 1
                st.violation(f"C15:search-pattern-does-not-find-the-correctly-written-text:{shape}", case, {"log": o.log[-3:], "crashed": o.crashed})
            else:
                st.outcomes["cli-update-refused(not greater / gate)"] += 1
                st.observe((pat.text, ov, v, o.exit))
            # PEP440 line of `test`
            o2 = world.cli("test", ov, pat.text, "--set-version", v)
            st.evaluations += 1
            if o2.exit == 0:
                shown = o2.pep440 or o2.new_version
                try:
                    same = pv.Version(shown) == pv.Version(v) and shown == str(pv.Version(v))
                except pv.InvalidVersion:
                    same = False
                if not same:
                    st.violation(f"C15:test-pep440-line:{shape}", dict(case, cli="test"), {"shown": shown, "expected": str(pv.Version(v))})
                    st.outcomes["violation"] += 1
            # `show` when the current version comes from a VCS tag that is ahead of the config: both lines must describe the TAG
            if o.exit == 0 and bg_is_pep440(v):
                from .. import fakevcs

                world.clear_dir(".")
                world.write_tree({"bumpver.toml": CFG.format(v=ov, p=pat.text).encode(), "a.txt": f"ver={ov};\npep={ow};\n".encode(),
                                  "c.txt": f"get/{ov}/demo-{ow}.tgz\n".encode(), "d.txt": DLINE.format(v=ov, w=ow).encode()})
                os.mkdir(".git")
                fakevcs.install(fakevcs.FakeVCS("git", tags_all=[ov, v], tags_merged=[ov, v], status=[]))
                try:
                    o3 = world.cli("show", "--no-fetch")
                finally:
                    fakevcs.uninstall()
                st.evaluations += 1
                lines = dict((l.split(":", 1)[0].strip(), l.split(":", 1)[1].strip()) for l in o3.stdout.splitlines() if ":" in l)
                st.observe((pat.text, ov, v, "show-from-tag", o3.exit, sorted(lines.items())))
                cur, pep = lines.get("Current Version"), lines.get("PEP440")
                try:
                    ok3 = o3.exit == 0 and cur == v and pv.Version(pep) == pv.Version(v) and pep == str(pv.Version(v))
                except (pv.InvalidVersion, TypeError):
                    ok3 = False
                if not ok3:
                    st.outcomes["violation"] += 1
                    st.violation(f"C15:show-pep440-line-when-version-comes-from-a-tag:{shape}", dict(case, cli="show", tag=v, config=ov),
                                 {"stdout": o3.stdout, "expected_pep440": str(pv.Version(v))})
                else:
                    st.validated += 1
                    st.outcomes["cli-show-from-tag-ok"] += 1
        prev = (v, w)
    # the increment path: `update` with flags (incl. --tag-num on patterns without NUM), files must again agree
    for state in states[:4]:
        r = lib_check(Stats(), pat, state)
        if r is None:
            continue
        ov, ow = r
        for flags in (("--tag-num",), ("--patch", "--tag-num"), ("--minor", "--tag-num"), ("--patch",), ("--tag", "rc"), ("--tag-num", "--tag", "beta")):
            if ("--patch" in flags and "PATCH" not in pat.names) or ("--minor" in flags and "MINOR" not in pat.names):
                continue
            world.clear_dir(".")
            world.write_tree({"bumpver.toml": CFG.format(v=ov, p=pat.text).encode(), "a.txt": f"ver={ov};\npep={ow};\n".encode(),
                              "c.txt": f"get/{ov}/demo-{ow}.tgz\n".encode(), "d.txt": DLINE.format(v=ov, w=ow).encode()})
            o = world.cli("update", "--no-fetch", "--ignore-vcs-tag", "--date", "2035-01-01", *flags)
            st.evaluations += 1
            st.transitions += 1
            if o.exit != 0:
                st.outcomes["cli-increment-refused"] += 1
                continue
            st.validated += 1
            body = world.read_tree(".")["a.txt"].decode("utf-8", "replace")
            m = re.fullmatch(r"ver=(.*);\npep=(.*);\n", body)
            case = {"pattern": pat.text, "old": ov, "flags": list(flags), "cli": "update-increment"}
            st.observe((pat.text, ov, flags, body))
            ok = False
            if m and m.group(1) == o.new_version:
                if not bg_is_pep440(m.group(1)):
                    ok = True  # out of scope: the version itself is not PEP 440
                else:
                    try:
                        ok = pv.Version(m.group(2)) == pv.Version(m.group(1)) and normal_form_problem(m.group(2), pv.Version(m.group(1))) is None
                    except pv.InvalidVersion:
                        ok = False
            if not ok:
                st.outcomes["violation"] += 1
                st.violation(f"C15:file-written-by-update-increment:{shape}", case, {"file": body, "announced": o.new_version})
            else:
                st.outcomes["cli-increment-ok"] += 1


def bg_is_pep440(s):
    try:
        pv.Version(s)
        return True
    except pv.InvalidVersion:
        return False


def replay(case, st):
    import datetime as dt

    world.set_today(dt.date(2033, 3, 3))
    pat = grammar.Pat(M.parse_pattern(case["pattern"]))
    if "state" in case:
        lib_check(st, pat, case["state"])
    else:
        d = pool.fresh_dir("c15r")
        os.chdir(d)
        cli_check(st, pat)
        os.chdir("/")
