"""C14 - calendar versions never run backwards as the date advances.

(a) every coherent year x sub-part block x EVERY consecutive day pair of 2001-01-01..2099-12-31, rendered by
    the real bump path (v2version.incr from a fixed early state with maybe_date=d): v(d+1) >= v(d);
(b) bump level through the `test` command body: block.INC0 and MAJOR.block (with --major) patterns, old date x new date pairs incl. new < old:
    calendar parts of an announced version are never lower than those of the old version;
(c) the rejected pairings (calendar year + ISO week, ISO year + non-ISO week) are refused by `test` and by the
    config loader, and a witness day pair shows that the unguarded rendering does run backwards.
"""
import datetime as dt
import os
import re

import bumpver.v2version as v2version

from .. import grammar, pool, world
from ..ref import model as M
from ..stats import Stats

ID = "C14"
LEVEL = "model_checking"
MIN_OUTCOMES = 3
MANIFEST = {
    'text': 'All consecutive day pairs 2001..2099 (36,158) for every coherent calendar block (padded, unpadded, glued, prefixed) are rendered through the real bump path and compared; bump-level pairs (old date, new date incl. earlier; quick: old dates of 2001-2029 plus 2038, 2050, 2068-2070, 2099 - thorough: 2001-2099) run through the `test` body; a VCS section in which config and newest tag straddle a 9->10 / 99->100 step of a calendar part and the bump date lies before the true current version; a day-by-day sweep of the {pep440_version} text for version patterns whose calendar parts are joined by - or _; every rejected year/week pairing is shown refused by test and config loader and non-monotone on a witness pair. Project chains run real updates and `show` with dates going forward, back and forward again over bumpver.toml and setup.cfg (version unquoted and quoted) for nine two-/three-part calendar patterns: the version read back never shows earlier calendar parts. Exhaustive over the stated date range - transitivity of the order extends consecutive pairs to all pairs.',
    'note': 'two-digit years wrap after 2099 by design; platform strftime (glibc) supplies week numbers',
    'technique': 'explicit-state exploration: exhaustive enumeration of the date-successor relation on the real bump path, invariant per edge',
}
RULE = (
    "state = (calendar block, date); transition = date -> next day rendered by the real bump path, or one `test` bump for "
    "an (old date, new date) pair; distinct non-trivial = distinct (block, rendered version) pairs whose successor differs"
)
ASSUMPTIONS = ["order of rendered calendar versions = order of their integer components (equals PEP 440 release order)"]

FIRST = dt.date(2001, 1, 1)
LAST = dt.date(2099, 12, 31)


def blocks():
    out = []
    for name, tree in grammar.calendar_blocks(True):
        if tree:
            out.append(M.tree_text(tree))
    return out


REJECTED = [y + sep + w for y in ("YYYY", "YY", "0Y") for w in ("VV", "0V") for sep in (".",)] + [
    g + "." + w for g in ("GGGG", "GG", "0G") for w in ("WW", "0W", "UU", "0U")
]


def ints(text):
    return tuple(int(x) for x in re.findall(r"[0-9]+", text))


def bounds(tier, seed):
    return {
        "blocks": len(blocks()),
        "day_pairs": (LAST - FIRST).days if tier == "thorough" else "2001..2030 and 2097..2099 (all 14 year types)",
        "bump_level_old_dates": "every 25 Dec..7 Jan window " + ("2001-2099 + every day of 2020, 2021" if tier == "thorough" else "2001-2029"),
        "bump_level_offsets_days": OFFSETS if tier == "thorough" else QUICK_OFFSETS,
        "rejected_pairings": REJECTED,
    }


OFFSETS = [-370, -32] + list(range(-8, 9)) + [32, 370]
QUICK_OFFSETS = [-370, -32, -8, -6, -3, -1, 0, 1, 3, 8, 32]


def explore(tier, seed):
    chunks = []
    bl = blocks()
    if tier == "thorough":
        spans = [(FIRST, LAST)]
    else:
        spans = [(FIRST, dt.date(2030, 12, 31)), (dt.date(2097, 1, 1), LAST)]
    for b in bl:
        for prefix in ("", "v") if tier == "thorough" else ("",):
            chunks.append(("sweep", prefix + b, [(s.isoformat(), e.isoformat()) for s, e in spans]))
    for b in bl:
        chunks.append(("bump", b + ".INC0", tier))
        # a more significant part left of the calendar is bumped: the PEP 440 gate can then no longer hide
        # a calendar that moved backwards
        chunks.append(("bump", "MAJOR." + b, tier))
    chunks.append(("rejected", None, None))
    chunks.append(("tags", None, None))
    chunks.append(("project", None, None))
    for pattern in PEP_SWEEP:
        chunks.append(("pep", pattern, tier))
    return pool.run_chunks(run_chunk, chunks)


def run_chunk(chunk):
    kind, pattern, arg = chunk
    st = Stats()
    world.set_today(dt.date(2033, 3, 3))
    if kind == "sweep":
        sweep(st, pattern, arg)
    elif kind == "bump":
        bump_level(st, pattern, arg)
    elif kind == "tags":
        behind_a_tag(st)
    elif kind == "project":
        project_chains(st)
    elif kind == "pep":
        pep_sweep(st, pattern, arg)
    else:
        rejected(st)
    return st


# version patterns whose calendar parts are joined by separators PEP 440 does not have: the text written for {pep440_version} is derived
# by dropping them - it must still never run backwards as the date advances (padded parts only: unpadded parts glued together are not a
# coherent pattern in any spelling)
PEP_SWEEP = ["YYYY-0M-0D.BUILD", "vYYYY_0M.BUILD", "YYYY-00J.BUILD", "YY-0M-0D.PATCH", "YYYY_0W.PATCH", "GGGG-0V.PATCH", "YYYY-0M.0D.BUILD",
             "YYYY.0M.0D.BUILD", "vYYYY0M.BUILD"]


def pep_sweep(st, pattern, tier):
    import bumpver.v2patterns as v2patterns
    import packaging.version as pv

    derived = v2patterns.normalize_pattern(pattern, "{pep440_version}")
    base = v2version.parse_version_info("1", "MAJOR")
    first, last = (FIRST, LAST) if tier == "thorough" else (dt.date(2001, 1, 1), dt.date(2030, 12, 31))
    day, prev, prev_v = first, None, None
    while day <= last:
        info = base._replace(**v2version.cal_info(day)._asdict())._replace(bid="1001", patch=1)
        text = v2version.format_version(info, derived)
        st.evaluations += 1
        st.transitions += 1
        try:
            cur_v = pv.Version(text)
        except pv.InvalidVersion:
            st.outcomes["violation"] += 1
            st.violation(f"C14:pep440-text-of-a-calendar-version-is-not-pep440:{pattern}", {"pattern": pattern, "pep_sweep": True, "date": day.isoformat()}, {"text": text})
            return
        if prev_v is not None and cur_v < prev_v:
            st.outcomes["violation"] += 1
            st.violation(f"C14:pep440-text-runs-backwards:{pattern}", {"pattern": pattern, "pep_sweep": True, "dates": [(day - dt.timedelta(days=1)).isoformat(), day.isoformat()]},
                         {"texts": [prev, text], "derived_pattern": derived})
            return
        st.validated += 1
        prev, prev_v = text, cur_v
        day += dt.timedelta(days=1)
    st.state("pep", pattern, derived)
    st.nontriv("pep", pattern)
    st.observe((pattern, derived, prev))
    st.outcomes["pep440-text-monotone"] += 1


# (pattern, earlier date, later date): the two renderings straddle a 9 -> 10 or 99 -> 100 step of a calendar part
TAG_CASES = [
    ("YYYY.MM.INC0", dt.date(2024, 9, 20), dt.date(2024, 10, 5)), ("YYYY.0M.0D.INC0", dt.date(2024, 9, 20), dt.date(2024, 10, 5)),
    ("YYYY.MM.DD.INC0", dt.date(2024, 10, 9), dt.date(2024, 10, 10)), ("YYYY.WW.INC0", dt.date(2024, 3, 4), dt.date(2024, 3, 11)),
    ("GGGG.VV.INC0", dt.date(2024, 2, 26), dt.date(2024, 3, 4)), ("YYYY.JJJ.INC0", dt.date(2024, 4, 8), dt.date(2024, 4, 9)),
    ("YY.MM.INC0", dt.date(2024, 9, 20), dt.date(2024, 10, 5)),
]


# (pattern, start version, dates: forward onto a value that ends in 0 - month 10, week 20, day 100 -, then EARLIER, then later again)
PROJECT_CHAINS = [
    ("YYYY.MM", "2021.9", ["2021-10-05", "2021-05-01", "2021-11-02", "2021-10-20", "2022-01-03"]),
    ("YY.MM", "21.9", ["2021-10-05", "2021-05-01", "2021-11-02", "2030-10-01", "2030-02-01"]),
    ("YYYY.WW", "2021.19", ["2021-05-19", "2021-02-10", "2021-07-28", "2021-06-01"]),
    ("YYYY.UU", "2021.19", ["2021-05-19", "2021-02-10", "2021-07-28", "2021-06-01"]),
    ("GGGG.VV", "2021.19", ["2021-05-19", "2021-02-10", "2021-07-28", "2021-06-01"]),
    ("YYYY.JJJ", "2021.99", ["2021-04-10", "2021-01-05", "2021-07-19", "2021-04-30"]),
    ("YYYY.MM.DD", "2021.9.30", ["2021-10-10", "2021-10-01", "2021-10-20", "2021-02-03"]),
    ("YYYY.0M", "2021.09", ["2021-10-05", "2021-05-01", "2021-11-02"]),
    ("YYYY.Q", "2021.3", ["2021-10-05", "2021-05-01", "2022-01-02"]),
]


def project_chains(st):
    """Successive REAL updates of a project (the version is written to the config and read back by the next command) with dates that go
    forward, back and forward again, the config once as bumpver.toml and once as setup.cfg with the version unquoted and quoted (a
    two-part calendar version reads like a decimal number): what `show` reports and what `update` announces never moves calendar parts
    backwards, and every command starts from the version the previous one wrote."""
    import os

    d = pool.fresh_dir("c14p")
    os.chdir(d)
    for pattern, start, dates in PROJECT_CHAINS:
        tree = M.parse_pattern(pattern)
        for form in ("bumpver.toml", "setup.cfg:unquoted", "setup.cfg:quoted"):
            world.clear_dir(".")
            if form == "bumpver.toml":
                world.write_tree({"bumpver.toml": f'[bumpver]\ncurrent_version = "{start}"\nversion_pattern = "{pattern}"\n\n[bumpver.file_patterns]\n"a.txt" = ["ver={{version}};"]\n'.encode(),
                                  "a.txt": f"ver={start};\n".encode()})
            else:
                q = '"' if form.endswith(":quoted") else ""
                world.write_tree({"setup.cfg": f"[bumpver]\ncurrent_version = {q}{start}{q}\nversion_pattern = {pattern}\n\n[bumpver:file_patterns]\na.txt =\n    ver={{version}};\n".encode()
                                               + (b'setup.cfg =\n    current_version = "{version}"\n' if q else b""),  # (the implicit entry has no quotes)
                                  "a.txt": f"ver={start};\n".encode()})
            cur = start
            for i, date in enumerate(dates):
                case = {"project_chain": True, "pattern": pattern, "form": form, "step": i, "date": date}
                o = world.cli("update", "--no-fetch", "--date", date)
                s_ = world.cli("show", "--no-fetch")
                st.evaluations += 2
                st.transitions += 2
                st.validated += 2
                shown = None
                for line in s_.stdout.splitlines():
                    if line.startswith("Current Version: "):
                        shown = line[len("Current Version: "):]
                st.observe((pattern, form, i, o.exit, o.old_version, o.new_version, shown))
                st.state("project", pattern, form, i, shown)
                st.nontriv("project", pattern, form, i)
                new = o.new_version if o.exit == 0 else cur
                problems = []
                if o.exit == 0 and o.old_version != cur:
                    problems.append(("update-starts-from-another-version", {"old_version_line": o.old_version, "written_before": cur}))
                if o.exit == 0 and (cal_tuple(tree, new) is None or cal_tuple(tree, new) < cal_tuple(tree, cur)):
                    problems.append(("update-moves-calendar-backwards", {"announced": new, "previous": cur}))
                if shown is None or cal_tuple(tree, shown) is None or cal_tuple(tree, shown) < cal_tuple(tree, cur) or shown != new:
                    problems.append(("show-reports-an-earlier-or-other-version", {"shown": shown, "written": new, "previous": cur}))
                for sig, detail in problems:
                    st.outcomes["violation"] += 1
                    st.violation(f"C14:project-chain:{sig}:{pattern}:{form.split(':')[-1]}", case, dict(detail, exit=o.exit, log=o.log[-2:]))
                if problems:
                    break
                st.outcomes["project-chain:step-ok" if o.exit == 0 else "project-chain:step-refused"] += 1
                cur = new
    os.chdir("/")


def behind_a_tag(st):
    """The current version comes from the config in one project and from a newer tag in the other; the bump date lies BEFORE it (the
    current version is 'in the future'): `update` must not announce calendar parts below those of the true current version."""
    import os

    from .. import fakevcs

    d = pool.fresh_dir("c14t")
    os.chdir(d)
    for pattern, d1, d2 in TAG_CASES:
        tree = M.parse_pattern(pattern)
        fields = [M.PARTS[n][0] for n in M.parts_in_order(tree)]

        def ver(day, inc):
            state = {f: v for f, v in M.cal_from_date(day).items() if f in fields}
            state["inc0"] = inc
            return M.render(tree, state)

        older, newer = ver(d1, 1), ver(d2, 0)
        for cfgv, tag in ((older, newer), (newer, older)):
            for date in (d1, d1 - dt.timedelta(days=40)):
                world.clear_dir(".")
                world.write_tree({"bumpver.toml": f'[bumpver]\ncurrent_version = "{cfgv}"\nversion_pattern = "{pattern}"\n'.encode()})
                os.mkdir(".git")
                fakevcs.install(fakevcs.FakeVCS("git", tags_all=[tag], tags_merged=[tag], status=[]))
                try:
                    o = world.cli("update", "--dry", "--no-fetch", "--date", date.isoformat())
                finally:
                    fakevcs.uninstall()
                st.evaluations += 1
                st.transitions += 1
                st.validated += 1
                case = {"pattern": pattern, "config": cfgv, "tag": tag, "bump_date": date.isoformat(), "tags_case": True}
                st.observe((pattern, cfgv, tag, date.isoformat(), o.exit, o.new_version))
                st.state("tags", pattern, cfgv, tag, date.isoformat())
                st.nontriv("tags", pattern, cfgv, tag, date.isoformat())
                if o.exit != 0:
                    st.outcomes["behind-a-tag:refused"] += 1
                    continue
                got, cur = cal_tuple(tree, o.new_version), cal_tuple(tree, newer)
                if got is None or got < cur:
                    st.outcomes["violation"] += 1
                    st.violation(f"C14:calendar-moves-backwards-when-config-and-tag-differ:{pattern}", case,
                                 {"announced": o.new_version, "true_current_version": newer, "old_version_line": o.old_version})
                else:
                    st.outcomes["behind-a-tag:ok"] += 1
    os.chdir("/")


def sweep(st, pattern, spans):
    tree = M.parse_pattern(pattern)
    early_state = {f: v for f, v in M.cal_from_date(dt.date(2001, 1, 1)).items() if f in [M.PARTS[n][0] for n in M.parts_in_order(tree)]}
    early = M.render(tree, early_state)
    for s, e in spans:
        d = dt.date.fromisoformat(s)
        end = dt.date.fromisoformat(e)
        prev, prev_d = None, None
        while d <= end:
            v = v2version.incr(early, pattern, maybe_date=d)
            st.evaluations += 1
            if v is None:
                v = early  # same version as the early state: nothing to bump
            if prev is not None:
                st.transitions += 1
                st.validated += 1
                if ints(v) < ints(prev):
                    cal = M.cal_from_date(d)
                    st.violation(
                        f"C14:runs-backwards:{pattern.lstrip('v')}", {"pattern": pattern, "dates": [prev_d.isoformat(), d.isoformat()]},
                        {"earlier": prev, "later": v},
                    )
                    st.outcomes["backwards"] += 1
                elif v != prev:
                    st.outcomes["advance"] += 1
                    st.nontriv(pattern, prev)
                else:
                    st.outcomes["same"] += 1
            st.state(pattern, v)
            prev, prev_d = v, d
            d += dt.timedelta(days=1)
        st.observe((pattern, s, e, prev))
    if pattern in ("YYYY.WW", "vGGGGw0V"):
        st.sample({"pattern": pattern, "spans": spans, "last": prev})


def old_dates(tier):
    out = []
    # quick: the first three decades plus the years around 2038, the middle of the century and the POSIX two-digit-year pivot (68/69)
    years = range(2001, 2100) if tier == "thorough" else list(range(2001, 2030)) + [2038, 2050, 2068, 2069, 2070, 2099]
    for y in years:
        for k in range(-7, 7):
            out.append(dt.date(y, 1, 1) + dt.timedelta(days=k))
    if tier == "thorough":
        d = dt.date(2020, 1, 1)
        while d.year < 2022:
            out.append(d)
            d += dt.timedelta(days=1)
    else:
        d = dt.date(2020, 1, 1)
        while d.year < 2021:
            out.append(d)
            d += dt.timedelta(days=9)
    return sorted(set(x for x in out if FIRST <= x <= LAST))


def cal_tuple(tree, text):
    s = M.recognise(tree, text)
    if s is None:
        return None
    return tuple(s[f] for f in M.CAL_SIGNIFICANCE if f in s)


def bump_level(st, pattern, tier):
    tree = M.parse_pattern(pattern)
    fields = [M.PARTS[n][0] for n in M.parts_in_order(tree)]
    for od in old_dates(tier):
        ostate = {f: v for f, v in M.cal_from_date(od).items() if f in fields}
        if "inc0" in fields:
            ostate["inc0"] = 3
        else:
            ostate["major"] = 1
        old = M.render(tree, ostate)
        if M.recognise(tree, old) != ostate:
            st.counters["old_versions_not_representable(e.g. week 53 outside the documented range)"] += 1
            continue
        for off in (OFFSETS if tier == "thorough" else QUICK_OFFSETS):
            nd = od + dt.timedelta(days=off)
            if not (FIRST <= nd <= LAST):
                continue
            o = world.callback("test", old_version=old, pattern=pattern, date=nd.isoformat(), major="major" in fields)
            st.evaluations += 1
            st.transitions += 1
            st.observe((pattern, old, nd.isoformat(), o.exit, o.new_version))
            if o.exit != 0:
                st.outcomes["bump:refused"] += 1
                continue
            st.validated += 1
            new = o.new_version
            oc, nc = cal_tuple(tree, old), cal_tuple(tree, new)
            if nc is None:
                st.outcomes["bump:announced-not-readable"] += 1  # C02's business (week 53)
                continue
            st.state(pattern, new)
            if nc < oc:
                st.violation(
                    f"C14:bump-moves-calendar-backwards:{pattern}", {"pattern": pattern, "old": old, "date": nd.isoformat()},
                    {"announced": new, "old_calendar": oc, "new_calendar": nc},
                )
            else:
                st.outcomes["bump:kept" if nc == oc else "bump:advanced"] += 1
                st.nontriv(pattern, old, off)
    st.sample({"pattern": pattern, "old_dates": len(old_dates(tier)), "offsets": OFFSETS}) if pattern == "YYYY.WW.INC0" else None


def rejected(st):
    d = pool.fresh_dir("c14")
    os.chdir(d)
    for pattern in REJECTED:
        tree = M.parse_pattern(pattern)
        fields = [M.PARTS[n][0] for n in M.parts_in_order(tree)]
        state = {f: v for f, v in M.cal_from_date(dt.date(2021, 6, 15)).items() if f in fields}
        v = M.render(tree, state)
        case = {"pattern": pattern, "version": v}
        o = world.callback("test", old_version=v, pattern=pattern, date="2021-07-20")
        st.evaluations += 1
        st.transitions += 1
        st.validated += 1
        if o.exit == 0:
            st.violation(f"C14:non-monotone-pairing-accepted-by-test:{pattern}", case, {"announced": o.new_version})
        world.clear_dir(".")
        world.write_tree({"bumpver.toml": f'[bumpver]\ncurrent_version = "{v}"\nversion_pattern = "{pattern}"\n'.encode()})
        o2 = world.cli("show", "--no-fetch")
        o3 = world.cli("update", "--dry", "--no-fetch", "--date", "2021-07-20")
        st.evaluations += 2
        if o2.exit == 0 or o3.exit == 0:
            st.violation(f"C14:non-monotone-pairing-accepted-by-config:{pattern}", case, {"show": o2.exit, "update": o3.exit})
        st.outcomes["rejected-pairing-refused"] += 1
        # witness: the unguarded rendering does run backwards on some consecutive day pair
        witness = None
        day = dt.date(2001, 1, 1)
        info = v2version.parse_version_info("1", "MAJOR")
        prev = None
        while day <= dt.date(2030, 12, 31) and witness is None:
            cur = v2version.format_version(info._replace(**v2version.cal_info(day)._asdict()), pattern)
            if prev is not None and ints(cur) < ints(prev):
                witness = [(day - dt.timedelta(days=1)).isoformat(), prev, day.isoformat(), cur]
            prev = cur
            day += dt.timedelta(days=1)
        st.observe((pattern, o.exit, o2.exit, witness))
        if witness is None:
            st.counters["rejected_pairing_without_witness"] += 1
        else:
            st.counters["rejected_pairing_with_witness"] += 1
            if pattern in ("YYYY.VV", "GGGG.WW"):
                st.sample({"rejected_pattern": pattern, "non_monotone_witness": witness})
    os.chdir("/")


def replay(case, st):
    if isinstance(case, dict) and case.get("project_chain"):
        world.set_today(dt.date(2033, 3, 3))
        project_chains(st)
        return
    world.set_today(dt.date(2033, 3, 3))
    if case.get("pep_sweep"):
        pep_sweep(st, case["pattern"], "thorough")
    elif case.get("tags_case"):
        behind_a_tag(st)
    elif "dates" in case:
        sweep(st, case["pattern"], [tuple(case["dates"])])
    elif "date" in case:
        tree = M.parse_pattern(case["pattern"])
        o = world.callback("test", old_version=case["old"], pattern=case["pattern"], date=case["date"],
                           major=case["pattern"].startswith("MAJOR."))
        st.observe((o.exit, o.new_version))
        if o.exit == 0:
            oc, nc = cal_tuple(tree, case["old"]), cal_tuple(tree, o.new_version)
            if nc is not None and nc < oc:
                st.violation(f"C14:bump-moves-calendar-backwards:{case['pattern']}", case, {"announced": o.new_version})
    else:
        rejected(st)
