"""C11 - uncommitted changes are never swept into the bump commit.

Real git produces the status text.  File roles {pattern file, unrelated file} x every status git can report
{clean, modified unstaged, modified staged, staged + further unstaged, added, deleted staged, deleted unstaged,
renamed, untracked}: all 9 x 9 pairs x --allow-dirty on/off x config format {toml, cfg} x file names {plain;
thorough also with a blank and a non-ASCII character, which git quotes}.
"""
import itertools
import os

from .. import gitworld as gw
from .. import pool, world
from .. import projtable as pt
from ..stats import Stats

ID = "C11"
LEVEL = "model_checking"
MIN_OUTCOMES = 3
MANIFEST = {
    'text': "The space (status of the pattern file) x (status of an unrelated file) x --allow-dirty x config format x file naming (plain, blank, non-ASCII: git quotes those) x spelling of the path in the config (./a.txt, sub/../a.txt, a glob reaching 13 pattern files of one directory with the unrelated file below it, a project that lives in packages/core/ of a larger repository) x crowds of 3/12/25 other dirty files x extra flags (--ignore-vcs-tag, --tag-scope branch) is enumerated in real temporary git repositories, so the status text is git's own; the real `update` must abort before modifying anything exactly when the property says so, never block on untracked unrelated files, and when it proceeds the bump commit must not contain edits the user had not staged - also with pre- and post-commit hooks configured.",
    'note': "submodules, merge conflicts and hg status codes are outside the bound; that `git commit` also commits unrelated files the user had staged is git's semantics and only reported",
    'technique': 'explicit-state exploration: exhaustive enumeration of working-tree states in real git repositories, real CLI, state comparison',
}
RULE = (
    "state = (pattern-file status, unrelated-file status, allow_dirty, format, file naming); transition = one real `bumpver update` in "
    "a real git repository; distinct non-trivial = distinct states in which at least one file is not clean"
)
ASSUMPTIONS = ["git 2.39 porcelain v1 status; repository without remote; commit identity and dates fixed by the harness"]

STATUSES = ("clean", "modified-unstaged", "modified-staged", "staged+unstaged", "added", "deleted-staged", "deleted-unstaged", "renamed", "untracked")
NAMINGS = {"plain": ("a.txt", "other.txt"), "blank": ("a b.txt", "o ther.txt"), "non-ascii": ("ä.txt", "öther.txt"),
            "dot-slash": ("a.txt", "other.txt"), "subdir-dot": ("a.txt", "other.txt"),
            # 13 pattern files reached through one glob, the unrelated file lives below the same directory
            "many-in-dir": ("pkg/mod_00.py", "pkg/sub/other.txt"),
            # the project (config + files) lives in packages/core/ of a larger repository; bumpver runs there
            "subdir-project": ("a.txt", "other.txt"),
            # the pattern file carries only a partial pattern (MAJOR.MINOR) that a --patch bump leaves unchanged
            "unchanging-pattern-file": ("a.txt", "other.txt")}
# how the configuration spells the pattern file (the file itself has the canonical name)
CONFIG_SPELLING = {"dot-slash": "./a.txt", "subdir-dot": "sub/../a.txt", "many-in-dir": "pkg/mod_*.py"}
GONE = ("deleted-staged", "deleted-unstaged", "renamed")
SIBLINGS = {"many-in-dir": [f"pkg/mod_{i:02d}.py" for i in range(1, 13)]}


def bounds(tier, seed):
    return {"statuses": list(STATUSES), "pairs": len(STATUSES) ** 2, "allow_dirty": [False, True], "crowd_of_other_dirty_files": [0, 3, 12, 25], "formats": ["bumpver.toml", "setup.cfg"],
            "namings": list(NAMINGS) if tier == "thorough" else ["plain", "blank (pattern-file statuses only)"]}


def explore(tier, seed):
    chunks = []
    for naming in (NAMINGS if tier == "thorough" else ("plain",)):
        for fmt in ("bumpver.toml", "setup.cfg"):
            for ps in STATUSES:
                if naming == "many-in-dir" and ps in GONE:
                    continue  # (a file that no longer exists under a name the glob matches is not a configured file any more)
                chunks.append((naming, fmt, ps, STATUSES))
    if tier != "thorough":
        for ps in STATUSES:
            chunks.append(("blank", "bumpver.toml", ps, ("clean", "modified-unstaged")))
            chunks.append(("non-ascii", "bumpver.toml", ps, ("clean",)))
            chunks.append(("dot-slash", "bumpver.toml", ps, ("clean", "untracked")))
            chunks.append(("subdir-dot", "setup.cfg", ps, ("clean",)))
            chunks.append(("subdir-project", "bumpver.toml", ps, ("clean", "modified-unstaged", "modified-staged")))
            chunks.append(("unchanging-pattern-file", "bumpver.toml", ps, ("clean", "modified-unstaged")))
            if ps not in GONE:
                # (a file that no longer exists under a name the glob matches is not a configured file any more)
                chunks.append(("many-in-dir", "bumpver.toml", ps, ("clean", "modified-unstaged", "untracked")))
    return pool.run_chunks(run_chunk, chunks)


def renamed(name):
    return os.path.join(os.path.dirname(name), "renamed-" + os.path.basename(name))


def apply_status(name, status, initial):
    """Bring file `name` (committed iff it is in `initial`) into the given status."""
    if status == "clean":
        return
    if status == "modified-unstaged":
        with open(name, "a") as f:
            f.write("local edit\n")
    elif status == "modified-staged":
        with open(name, "a") as f:
            f.write("local edit\n")
        gw.git("add", name)
    elif status == "staged+unstaged":
        with open(name, "a") as f:
            f.write("local edit\n")
        gw.git("add", name)
        with open(name, "a") as f:
            f.write("second local edit\n")
    elif status == "added":
        gw.git("add", name)
    elif status == "deleted-staged":
        gw.git("rm", "-q", name)
    elif status == "deleted-unstaged":
        os.unlink(name)
    elif status == "renamed":
        gw.git("mv", name, renamed(name))
    elif status == "untracked":
        pass


def run_chunk(chunk):
    import datetime as dt

    naming, fmt, ps, unrelated_statuses = chunk
    st = Stats()
    world.set_today(dt.date(2033, 3, 3))
    base = pool.fresh_dir("c11")
    for us in unrelated_statuses:
        for allow in (False, True):
            run_case(st, base, naming, fmt, ps, us, allow)
            if naming == "plain" and fmt == "bumpver.toml":
                run_case(st, base, naming, fmt, ps, us, allow, extra=("--ignore-vcs-tag",))
                if us in ("clean", "modified-unstaged"):
                    run_case(st, base, naming, fmt, ps, us, allow, extra=("--tag-scope", "branch"))
            if naming in ("plain", "many-in-dir"):
                # with hooks around the commit (they succeed and touch nothing): what the user had pending is still not bumpver's to commit
                run_case(st, base, naming, fmt, ps, us, allow, extra=("--pre-commit-hook", "/bin/true", "--post-commit-hook", "/bin/true"))
    # a crowd of other dirty files around the pattern file in git's (sorted) status listing
    for crowd in (3, 12, 25):
        for allow in (False, True):
            run_case(st, base, naming, fmt, ps, "clean", allow, crowd=crowd)
    os.chdir("/")
    return st


def run_case(st, base, naming, fmt, ps, us, allow, crowd=0, extra=()):
    pfile, ufile = NAMINGS[naming]
    d = os.path.join(base, "repo")
    if os.path.exists(d):
        import shutil

        shutil.rmtree(d)
    os.makedirs(d)
    os.chdir(d)
    fpat, fbody = ("api=MAJOR.MINOR;", b"api=1.2;\n") if naming == "unchanging-pattern-file" else ("ver={version};", b"ver=1.2.3;\n")
    cfg = pt.config_text(fmt, "MAJOR.MINOR.PATCH", "1.2.3", [(CONFIG_SPELLING.get(naming, pfile), [fpat])], extra="commit = true\ntag = true\npush = false"
                         if fmt.endswith(".toml") else "commit = True\ntag = True\npush = False")
    files = {fmt: cfg.encode("utf-8"), pfile: fbody, ufile: b"unrelated\n"}
    for sib in SIBLINGS.get(naming, ()):
        files[sib] = b"ver=1.2.3;\n"
    crowd_files = [f"0crowd{i:02d}.txt" for i in range(crowd)]  # sort before the pattern file
    for cf in crowd_files:
        files[cf] = b"crowd\n"
    not_committed = set()
    if ps in ("added", "untracked"):
        not_committed.add(pfile)
    if us in ("added", "untracked"):
        not_committed.add(ufile)
    gw.init()
    prefix = ""
    if naming == "subdir-project":
        prefix = "packages/core/"
        world.write_tree({"README.md": b"monorepo\n"})
        os.makedirs(prefix)
        os.chdir(prefix)
    if naming == "subdir-dot":
        os.makedirs("sub")
        files["sub/keep.txt"] = b"x\n"
    world.write_tree({k: v for k, v in files.items() if k not in not_committed})
    gw.commit_all("init")
    world.write_tree({k: v for k, v in files.items() if k in not_committed})
    apply_status(pfile, ps, files)
    apply_status(ufile, us, files)
    for i, cf in enumerate(crowd_files):
        apply_status(cf, "modified-staged" if i % 2 else "modified-unstaged", files)
    before_tree = world.read_tree(".")
    before = gw.state()
    staged_names = set(x for x in gw.git("diff", "--cached", "--name-only", "-z").split("\0") if x)
    status_text = before["status"]
    args = ["update", "--patch", "--no-fetch"] + (["--allow-dirty"] if allow else []) + list(extra)
    o = world.cli(*args)
    after_tree = world.read_tree(".")
    after = gw.state()
    st.evaluations += 1
    st.transitions += 1
    st.validated += 1
    case = {"naming": naming, "format": fmt, "pattern_file": ps, "unrelated_file": us, "allow_dirty": allow, "crowd": crowd, "extra": list(extra)}
    if prefix and after["head"] == before["head"] and after["tags"] == before["tags"]:
        # no repository at the project root: bumpver does not commit here, so nothing can be swept into a commit
        st.observe((case, o.exit, o.crashed, "no-commit"))
        st.state(case.items())
        st.outcomes["not-committing:repository-root-is-above-the-project"] += 1
        return
    st.observe((case, o.exit, o.crashed, sorted(after_tree.items()), after["status"], len(after["tags"])))
    st.state(case.items())
    if ps != "clean" or us != "clean":
        st.nontriv(case.items())
    tracked_change_u = us not in ("clean", "untracked") or crowd > 0
    pattern_dirty = ps != "clean"
    must_abort = pattern_dirty or (tracked_change_u and not allow)
    unchanged = after_tree == before_tree and after["head"] == before["head"] and after["tags"] == before["tags"] and after["status"] == before["status"]
    ctx = f"{naming}:{'allow-dirty' if allow else 'strict'}" + (":" + extra[0].lstrip("-") if extra else "")
    if must_abort:
        if o.exit == 0 or not unchanged:
            st.outcomes["violation"] += 1
            what = "committed" if after["head"] != before["head"] else ("files-modified" if after_tree != before_tree else "exit-0")
            st.violation(f"C11:dirty-{'pattern' if pattern_dirty else 'unrelated'}-file-not-blocked:{ps if pattern_dirty else us}:{ctx}:{what}", case,
                         {"git_status": status_text, "exit": o.exit, "crashed": o.crashed, "head_moved": after["head"] != before["head"],
                          "commit_files": gw.commit_files() if after["head"] != before["head"] else None, "log": o.log[-3:]})
        else:
            st.outcomes[f"blocked:{'pattern' if pattern_dirty else 'unrelated'}"] += 1
        return
    # must proceed
    if o.exit != 0:
        st.outcomes["violation"] += 1
        st.violation(f"C11:clean-enough-tree-blocked:{us}:{ctx}", case, {"git_status": status_text, "exit": o.exit, "log": o.log[-3:], "crashed": o.crashed})
        return
    st.outcomes[f"proceeded:unrelated={us}"] += 1
    changed = gw.commit_files()
    allowed = {prefix + fmt, prefix + pfile} | set(SIBLINGS.get(naming, ()))
    if crowd:
        us = "crowd"
    extra = [f for f in changed if f not in allowed and f not in staged_names and renamed(f) not in staged_names]
    if extra:
        st.outcomes["violation"] += 1
        st.violation(f"C11:unstaged-edit-swept-into-bump-commit:{us}:{ctx}", case, {"commit_files": changed, "git_status_before": status_text})
    elif any(f not in allowed for f in changed):
        st.counters["info_previously_staged_unrelated_file_committed_with_allow_dirty (git semantics)"] += 1
    if us in ("modified-unstaged", "staged+unstaged"):
        # the user's unstaged edit must still be an unstaged edit
        if not any(ufile in l or ufile.encode("unicode_escape").decode() in l for l in after["status"]) and not any("ther" in l for l in after["status"]):
            st.outcomes["violation"] += 1
            st.violation(f"C11:unstaged-edit-no-longer-pending:{us}:{ctx}", case, {"status_after": after["status"]})
    if ps == "clean" and us == "untracked" and not allow:
        st.sample({"case": case, "git_status": status_text, "exit": o.exit, "bump_commit_files": changed})


def replay(case, st):
    import datetime as dt

    world.set_today(dt.date(2033, 3, 3))
    base = pool.fresh_dir("c11r")
    run_case(st, base, case["naming"], case["format"], case["pattern_file"], case["unrelated_file"], case["allow_dirty"], crowd=case.get("crowd", 0), extra=tuple(case.get("extra", ())))
    os.chdir("/")
