"""C09 - the current version is the greatest matching tag in scope.

Tag alphabet per pattern (below / equal / above the config value, highest, PEP 440-equal respellings, versions of
other schemes, junk, calendar-impossible dates); every tag is absent / reachable from HEAD / only on another branch:
ALL 3^n assignments (n = 6 quick, 8 thorough) x scope {default, global, branch} x --ignore-vcs-tag x config value
{below, between, above the tags} x 4 patterns.  Tags are served by the fake git (`tag --list`, `tag --list --merged`).
Observed: `show`, and `Old Version:` / announced version / exit code of `update --dry`.  Plus every order in which git
could list 6 tags, and one 30-tag listing per pattern.
"""
import itertools
import os

import packaging.version as pv

from .. import fakevcs, pool, world
from .. import bumpgraph as bg
from ..ref import model as M
from ..stats import Stats, h64

ID = "C09"
LEVEL = "model_checking"
MIN_OUTCOMES = 4
MANIFEST = {
    'text': "Complete enumeration of tag placements (absent / on HEAD's branch / only elsewhere) over alphabets containing every kind of tag the property names, for every scope (given by the config, or by --tag-scope on the command line against a config that names another scope), --ignore-vcs-tag, config position (incl. one whose string order differs from its version order) and 5 patterns (v2 date, SemVer with optional group, BUILD, SemVer with PYTAGNUM, legacy {pycalver}); `show`, `update --dry` and `update --dry [--ignore-vcs-tag] --set-version <existing tag>` on the real CLI with tags served at the subprocess seam (git and a hg slice), a failing fetch (giving up is fine, going on without the tags is not), `.git` being a file (fake, and real repositories made with --separate-git-dir), all 120/720 listing orders, a 30-tag listing, and real git repositories (3 tags x placements x scopes, with and without a branch named like the newest tag): the start version must equal the reference scope rule under packaging order, no tag set may crash, an announced version must not equal an existing tag, and a tag with an impossible date must not be the reason an update is refused (differential run without those tags).",
    'note': 'more than 8 distinct tags per placement product; real hg is not available (hg listing format only through the fake)',
    'technique': 'explicit-state exploration: exhaustive enumeration of tag-set states x scopes on the real CLI against a reference rule',
}
RULE = (
    "state = (pattern, config value, tag placement, scope, ignore flag); transition = `show` / `update --dry` on the real CLI; distinct "
    "non-trivial = distinct states with at least one served tag"
)
ASSUMPTIONS = [
    "matching = full match of the reference recogniser and a possible calendar date; order = packaging.version (bumpver's key for non-PEP 440 tags, validated by C16)",
    "for tags that match the pattern's regex but denote an impossible date, both 'ignored' and 'treated as matching' are accepted, a crash is not - and neither is an update that is refused only because such a tag is there",
]

PATTERNS = {
    "semver": dict(
        pattern="MAJOR.MINOR[.PATCH]", legacy=False, bump=["--patch"],
        tags=["2.0.1", "2.10", "1.2", "v9.9", "2.10.0", "9.9.9.9", "2.0.2", "latest", "1.5.0", "2.0.1rc1"],
        # "digits": greater than 2.0.1/2.0.2 as a version, smaller as a string than "2.0.2" is not - but smaller than "2.9"/"1.2"? no:
        # 2.0.10 vs tag 2.0.2: version order 2.0.10 > 2.0.2, string order "2.0.10" < "2.0.2"
        configs={"below": "1.1", "between": "2.0.1", "above": "3.0", "digits": "2.0.10"},
    ),
    "date": dict(
        pattern="YYYY.0M.0D", legacy=False, bump=["--date", "2024-05-06"],
        tags=["2021.12.31", "2023.02.29", "2019.01.01", "v2020.03.15", "2022.13.01", "2020.03.15", "2024.05.06", "2021.12.31-beta", "nightly"],
        configs={"below": "2018.06.01", "between": "2020.03.15", "above": "2025.01.01"},
    ),
    "build": dict(
        pattern="vYYYY0M.BUILD[-TAG]", legacy=False, bump=["--date", "2020-03-20"],
        tags=["v202003.1010", "v202003.1011-rc", "v202001.1001", "202003.1012", "v202013.1001", "v202003.1010-final", "v202003.1011", "v202003.1010.1", ""],
        configs={"below": "v201912.0999", "between": "v202003.1010", "above": "v202101.1100"},
    ),
    "tagnum": dict(
        pattern="MAJOR.MINOR.PATCH[PYTAGNUM]", legacy=False, bump=["--tag-num"], bumps=[["--tag-num"], ["--patch"], ["--tag", "final"], ["--tag", "rc"]],
        tags=["1.0.0rc1", "1.0.0", "0.9.0", "1.0.0rc2", "1.0.1", "1.0.0-rc1", "1.0.0b3", "v1.0.0"],
        configs={"below": "0.8.0", "between": "1.0.0rc1", "above": "2.0.0"},
    ),
    "legacy": dict(
        pattern="{pycalver}", legacy=True, bump=["--date", "2020-03-20"],
        tags=["v202003.1010", "v202003.1011-rc", "v202001.1001", "202003.1012", "v202003.1011junk", "v2020.1001", "v202003.1011", "v202013.1005"],
        configs={"below": "v201912.0999", "between": "v202003.1010", "above": "v202101.1100"},
    ),
}
PLACES = ("absent", "head", "elsewhere")
SCOPES = ("default", "global", "branch")


def legacy_matches(tag):
    import re

    m = re.fullmatch(r"v(\d{4})(0[0-9]|1[0-2])\.(\d{4,})(?:-(alpha|beta|dev|rc|post|final))?", tag)
    return m is not None


def classify_tag(name, tag):
    """-> 'match' | 'no' | 'impossible' (regex matches, date impossible)"""
    P = PATTERNS[name]
    if P["legacy"]:
        return "match" if legacy_matches(tag) else "no"
    tree = M.parse_pattern(P["pattern"])
    s = M.recognise(tree, tag)
    if s is None:
        return "no"
    return "match" if M.possible_date(s) else "impossible"


def vkey(s):
    try:
        return (1, pv.Version(s))
    except pv.InvalidVersion:
        return (0, s)


def greatest(cands):
    """All candidates that are maximal under PEP 440 order (equal spellings are all acceptable)."""
    if not cands:
        return []
    pep = [c for c in cands if bg.is_pep440(c)]
    if pep:
        top = max(pv.Version(c) for c in pep)
        return [c for c in pep if pv.Version(c) == top]
    return [max(cands)]


def expected_start(name, cfgv, scope, ignore, placement, tags):
    """-> set of acceptable start versions."""
    if ignore:
        return {cfgv}
    served_all = [t for t, pl in zip(tags, placement) if pl != "absent"]
    served_head = [t for t, pl in zip(tags, placement) if pl == "head"]
    pool_ = served_head if scope == "branch" else served_all
    sure = [t for t in pool_ if classify_tag(name, t) == "match"]
    maybe = [t for t in pool_ if classify_tag(name, t) == "impossible"]
    out = set()
    for extra in (itertools.chain.from_iterable(itertools.combinations(maybe, k) for k in range(len(maybe) + 1))):
        cands = sure + list(extra)
        if scope == "default":
            top = greatest(cands + [cfgv])
            # the config value wins ties (it is what the working directory holds)
            out.update(top)
        else:
            top = greatest(cands)
            out.update(top if top else [cfgv])
    return out


def bounds(tier, seed):
    n = 6 if tier == "quick" else 8
    return {"tags_per_placement_product": n, "placements": 3 ** n, "scopes": list(SCOPES), "ignore_vcs_tag": [False, True],
            "config_positions": ["below", "between", "above"], "patterns": {k: v["pattern"] for k, v in PATTERNS.items()},
            "listing_orders": 720 if tier == "thorough" else 120, "thirty_tag_listing": True}


def explore(tier, seed):
    n = 6 if tier == "quick" else 8
    chunks = []
    for name in PATTERNS:
        for pos in PATTERNS[name]["configs"]:
            for first in itertools.product(PLACES, repeat=2):
                chunks.append(("place", name, pos, first, n))
        chunks.append(("orders", name, tier))
        chunks.append(("thirty", name, tier))
    for name in PATTERNS:
        chunks.append(("hg", name, 4 if tier == "quick" else 6))
    for name in ("semver", "build", "legacy"):
        for twin in (False, True, "gitfile"):  # gitfile: repository data outside the work tree, `.git` is a file
            for pos in ("below", "between"):
                for first in PLACES:
                    chunks.append(("realgit", name, twin, pos, first))
    return pool.run_chunks(run_chunk, chunks)


def project(name, cfgv, scope, commit=True):
    P = PATTERNS[name]
    onoff = "commit = true\ntag = true\npush = false" if commit else "commit = false"
    cfg = f'[bumpver]\ncurrent_version = "{cfgv}"\nversion_pattern = "{P["pattern"]}"\ntag_scope = "{scope}"\n{onoff}\n'
    return {"bumpver.toml": cfg.encode()}


def run_state(st, name, pos, scope, ignore, placement, tags, order=None, kind="git", cfg_scope=None, fetch_fault=False):
    """cfg_scope: when given, the CONFIG names that scope and `update` gets `--tag-scope <scope>` on the command line (which must win);
    `show` has no such option and must follow the config's scope."""
    P = PATTERNS[name]
    cfgv = P["configs"][pos]
    served_all = [t for t, pl in zip(tags, placement) if pl != "absent"]
    served_head = [t for t, pl in zip(tags, placement) if pl == "head"]
    if order is not None:
        served_all = [served_all[i] for i in order if i < len(served_all)]
    world.clear_dir(".")
    # (half of the command-line-scope runs are projects that do not commit: the scope still decides the start version)
    commit_on = not (cfg_scope and h64("commit", repr(placement), scope) % 2)
    world.write_tree(project(name, cfgv, cfg_scope or scope, commit=commit_on))
    world.mark_repo(kind, as_file=bool(cfg_scope) and kind == "git")  # the command-line-scope runs also have `.git` as a FILE (linked work tree)
    want_update = expected_start(name, cfgv, scope, ignore, placement, tags)
    want_show = expected_start(name, cfgv, cfg_scope or scope, ignore, placement, tags)
    case = {"pattern": name, "config": cfgv, "scope": scope, "ignore_vcs_tag": ignore, "tags": {t: pl for t, pl in zip(tags, placement) if pl != "absent"},
            "order": list(order) if order else None}
    if cfg_scope:
        case["config_scope"] = cfg_scope
        case["commit"] = commit_on
    flags = ["--no-fetch"] + (["--ignore-vcs-tag"] if ignore else [])
    if fetch_fault:
        # a remote exists, fetching is on and `git fetch` fails (offline): bumpver may give up, but it must not fall back to a start
        # version that ignores the local tags
        flags = ["--fetch"]
        case["fetch_fails"] = True
    results = []
    for cmd in ("show", "update") if not (cfg_scope or fetch_fault) else ("update",):  # (`show` under the config's scope is what the plain run already does)
        want = want_show if cmd == "show" else want_update
        fake = fakevcs.install(fakevcs.FakeVCS(kind, tags_all=served_all, tags_merged=served_head, status=[],
                                               **({"remote": "upstream", "fail": ("fetch", 0)} if fetch_fault else {})))
        try:
            if cmd == "show":
                o = world.cli("show", *flags)
            else:
                o = world.cli("update", "--dry", *flags, *(["--tag-scope", scope] if cfg_scope else []), *P["bump"])
        finally:
            fakevcs.uninstall()
        st.evaluations += 1
        st.transitions += 1
        results.append(o)
        kinds = sorted({classify_tag(name, t) for t in served_all})
        ctx = f"{name}:{scope}" + (":ignore" if ignore else "") + (":hg" if kind == "hg" else "") + (":scope-on-command-line" if cfg_scope else "") + (":fetch-failed" if fetch_fault else "")
        if o.crashed and fetch_fault:
            st.outcomes["update-refused:fetch-failed"] += 1  # giving up when the fetch fails is fine; going on without the tags is not
            st.validated += 1
            continue
        if o.crashed:
            st.outcomes["violation"] += 1
            culprit = _culprit(name, served_all)
            st.violation(f"C09:crash:{o.crashed.split(':')[0]}:{name}:{culprit}", dict(case, cmd=cmd), {"crashed": o.crashed})
            continue
        if cmd == "show":
            got = None
            for line in o.stdout.splitlines():
                if line.startswith("Current Version: "):
                    got = line[len("Current Version: "):]
            if o.exit != 0 or got not in want:
                st.outcomes["violation"] += 1
                st.violation(f"C09:start-version:{ctx}:{_why(name, got, want, served_all)}", dict(case, cmd=cmd),
                             {"shown": got, "acceptable": sorted(want), "exit": o.exit, "log": o.log[-2:]})
            else:
                st.validated += 1
                st.outcomes[f"start-ok:{scope}" + (":ignore" if ignore else "")] += 1
        else:
            old = o.old_version
            if o.exit == 0:
                if old not in want:
                    st.outcomes["violation"] += 1
                    st.violation(f"C09:start-version:{ctx}:{_why(name, old, want, served_all)}", dict(case, cmd=cmd), {"old_version": old, "acceptable": sorted(want)})
                new = o.new_version
                waived = ignore and scope in ("default", "global")
                if new in served_all and not waived:
                    st.outcomes["violation"] += 1
                    st.violation(f"C09:new-version-equals-existing-tag:{ctx}", dict(case, cmd=cmd), {"announced": new})
                else:
                    st.validated += 1
                    st.outcomes["update-ok"] += 1
            else:
                st.outcomes["update-refused"] += 1
                # a tag with an impossible date may be ignored or taken for a version (see ASSUMPTIONS) - but it must not BREAK the update:
                # if the same update goes through once those tags are gone, the refusal was their doing
                imposs = [t for t in served_all if classify_tag(name, t) == "impossible"]
                if imposs and not fetch_fault:
                    fake = fakevcs.install(fakevcs.FakeVCS(kind, tags_all=[t for t in served_all if t not in imposs], tags_merged=[t for t in served_head if t not in imposs], status=[]))
                    try:
                        o2 = world.cli("update", "--dry", *flags, *(["--tag-scope", scope] if cfg_scope else []), *P["bump"])
                    finally:
                        fakevcs.uninstall()
                    st.evaluations += 1
                    st.transitions += 1
                    results.append(o2)
                    if o2.exit == 0:
                        st.outcomes["violation"] += 1
                        st.violation(f"C09:impossible-date-tag-breaks-the-update:{ctx}", dict(case, cmd=cmd),
                                     {"exit": o.exit, "log": o.log[-2:], "without_those_tags": o2.new_version, "tags": imposs})
    want = want_update
    # an explicit --set-version that names an existing tag (on any branch) must be refused
    if order is None and not cfg_scope and not fetch_fault:
        cands = [t for t in served_all if classify_tag(name, t) == "match" and all(bg.greater(t, w) for w in want)][:2]
        for t in cands:
            fake = fakevcs.install(fakevcs.FakeVCS(kind, tags_all=served_all, tags_merged=served_head, status=[]))
            try:
                o = world.cli("update", "--dry", "--no-fetch", *(["--ignore-vcs-tag"] if ignore else []), "--set-version", t)
            finally:
                fakevcs.uninstall()
            st.evaluations += 1
            st.transitions += 1
            results.append(o)
            if o.exit == 0:
                st.outcomes["violation"] += 1
                st.violation(f"C09:set-version-equal-to-existing-tag-accepted:{name}:{scope}" + (":ignore" if ignore else ""), dict(case, cmd="update --set-version " + t),
                             {"announced": o.new_version, "tag": t, "where": dict(zip(tags, placement)).get(t)})
            else:
                st.validated += 1
                st.outcomes["set-version-of-existing-tag-refused"] += 1
    st.observe((case, [(o.exit, o.crashed, o.stdout, o.old_version, o.new_version) for o in results]))
    st.state(name, pos, scope, ignore, placement, order, cfg_scope, fetch_fault)
    if served_all:
        st.nontriv(name, pos, scope, ignore, placement, order, cfg_scope, fetch_fault)
    return results


def _culprit(name, served):
    imp = [t for t in served if classify_tag(name, t) == "impossible"]
    return "impossible-date-tag" if imp else "tags"


def _why(name, got, want, served):
    if got is None:
        return "nothing-shown"
    if got in served:
        k = classify_tag(name, got)
        if k == "no":
            return "non-matching-tag-won"
        return "wrong-tag-won"
    return "config-value-won" if got not in served else "other"


def run_chunk(chunk):
    import datetime as dt

    st = Stats()
    world.set_today(dt.date(2020, 3, 20))
    d = pool.fresh_dir("c09")
    os.chdir(d)
    if chunk[0] == "place":
        _k, name, pos, first, n = chunk
        tags = PATTERNS[name]["tags"][:n]
        for rest in itertools.product(PLACES, repeat=n - 2):
            placement = first + rest
            for scope in SCOPES:
                for ignore in (False, True):
                    if ignore and placement.count("absent") < n - 2:
                        continue  # with --ignore-vcs-tag the start version is the config value: a thin slice suffices
                    run_state(st, name, pos, scope, ignore, placement, tags)
                    if not ignore:
                        # the scope given on the command line while the config names another one (both other ones over the chunk)
                        others = [x for x in SCOPES if x != scope]
                        run_state(st, name, pos, scope, ignore, placement, tags, cfg_scope=others[h64(repr(placement)) % 2])
                        if h64("ff", repr(placement)) % 3 == 0:
                            run_state(st, name, pos, scope, ignore, placement, tags, fetch_fault=True)
        if first == ("head", "elsewhere") and pos == "between":
            st.sample({"pattern": PATTERNS[name]["pattern"], "tags": tags, "placement_example": list(first + ("absent",) * (n - 2)),
                       "tag_kinds": {t: classify_tag(name, t) for t in tags}})
    elif chunk[0] == "orders":
        _k, name, tier = chunk
        tags = PATTERNS[name]["tags"][:6]
        perms = list(itertools.permutations(range(6)))
        if tier != "thorough":
            perms = perms[::6]
        for order in perms:
            run_state(st, name, "below", "global", False, ("head",) * 3 + ("elsewhere",) * 3, tags, order=order)
    elif chunk[0] == "hg":
        _k, name, n = chunk
        tags = [t for t in PATTERNS[name]["tags"][:n + 2] if t and " " not in t][:n]  # hg tag names: no blanks, not empty
        for placement in itertools.product(PLACES, repeat=len(tags)):
            for scope in SCOPES:
                run_state(st, name, "below", scope, False, placement, tags, kind="hg")
    elif chunk[0] == "realgit":
        real_git(st, chunk[1], chunk[2], chunk[3], chunk[4])
    else:
        _k, name, tier = chunk
        P = PATTERNS[name]
        # 30 tags: all valid seeds of the alphabet plus generated lower versions
        tags = list(P["tags"])
        i = 0
        while len(tags) < 30:
            i += 1
            if name == "semver":
                tags.append(f"0.{i}.{i % 3}")
            elif name == "date":
                tags.append(f"2017.{(i % 12) + 1:02d}.{(i % 27) + 1:02d}")
            else:
                tags.append(f"v2019{(i % 12) + 1:02d}.{1000 + i}")
        placement = tuple(PLACES[1 + (k % 2)] for k in range(len(tags)))
        for scope in SCOPES:
            run_state(st, name, "below", scope, False, placement, tags)
    os.chdir("/")
    return st


def real_git(st, name, twin_branch, only_pos=None, only_first=None):
    """Seam conformance + what only real git can show: 3 tags over two branches in a real repository, every
    placement x scope, optionally with a BRANCH named exactly like the highest tag (git then disambiguates ref names)."""
    from .. import gitworld as gw

    P = PATTERNS[name]
    tags = [t for t in P["tags"] if classify_tag(name, t) == "match"][:3]
    for placement in itertools.product(PLACES, repeat=len(tags)):
        if only_first is not None and placement[0] != only_first:
            continue
        for pos in ("below", "between"):
            if only_pos is not None and pos != only_pos:
                continue
            cfgv = P["configs"][pos]
            for scope in SCOPES:
                d = pool.fresh_dir("c09git")
                os.chdir(d)
                gw.init(separate=twin_branch == "gitfile")
                world.write_tree(project(name, cfgv, scope))
                gw.commit_all("init")
                gw.git("branch", "other")
                for t, pl in zip(tags, placement):
                    if pl == "head":
                        gw.git("commit", "-q", "--allow-empty", "-m", "work for " + t)
                        gw.git("tag", t)
                for t, pl in zip(tags, placement):
                    if pl == "elsewhere":
                        gw.git("checkout", "-q", "other")
                        gw.git("commit", "-q", "--allow-empty", "-m", "other work for " + t)
                        gw.git("tag", t)
                        gw.git("checkout", "-q", "main")
                present = [t for t, pl in zip(tags, placement) if pl != "absent"]
                if twin_branch is True and present:
                    top = greatest(present)[0]
                    gw.git("branch", top, check=False)  # a maintenance branch named like the newest tag
                want = expected_start(name, cfgv, scope, False, placement, tags)
                o = world.cli("show", "--no-fetch")
                st.evaluations += 1
                st.transitions += 1
                got = None
                for line in o.stdout.splitlines():
                    if line.startswith("Current Version: "):
                        got = line[len("Current Version: "):]
                case = {"pattern": name, "config": cfgv, "scope": scope, "ignore_vcs_tag": False, "real_git": True, "twin_branch": twin_branch,
                        "tags": {t: pl for t, pl in zip(tags, placement) if pl != "absent"}}
                st.observe((case, o.exit, o.crashed, got))
                st.state("realgit", name, pos, scope, placement, twin_branch)
                if present:
                    st.nontriv("realgit", name, pos, scope, placement, twin_branch)
                if o.exit != 0 or got not in want:
                    st.outcomes["violation"] += 1
                    st.violation(f"C09:start-version:real-git:{name}:{scope}" + (":branch-named-like-tag" if twin_branch is True else ":gitfile" if twin_branch else ""), case,
                                 {"shown": got, "acceptable": sorted(want), "exit": o.exit, "crashed": o.crashed, "log": o.log[-2:]})
                else:
                    st.validated += 1
                    st.outcomes["real-git-start-ok"] += 1
                if scope == "default" and pos == "below" and present:
                    o2 = world.cli("update", "--dry", "--no-fetch", *P["bump"])
                    st.evaluations += 1
                    if o2.exit == 0 and o2.new_version in present:
                        st.outcomes["violation"] += 1
                        st.violation(f"C09:new-version-equals-existing-tag:real-git:{name}", case, {"announced": o2.new_version})
    os.chdir("/")


def replay(case, st):
    if case.get("real_git"):
        world.set_today(__import__("datetime").date(2020, 3, 20))
        real_git(st, case["pattern"], case["twin_branch"])
        return
    import datetime as dt

    world.set_today(dt.date(2020, 3, 20))
    d = pool.fresh_dir("c09r")
    os.chdir(d)
    name = case["pattern"]
    tags = list(case["tags"])
    placement = tuple(case["tags"][t] for t in tags)
    pos = [k for k, v in PATTERNS[name]["configs"].items() if v == case["config"]][0]
    run_state(st, name, pos, case["scope"], case["ignore_vcs_tag"], placement, tags, order=case.get("order"), cfg_scope=case.get("config_scope"), fetch_fault=bool(case.get("fetch_fails")))
    os.chdir("/")
