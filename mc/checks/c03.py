"""C03 - after an update no configured occurrence is left stale.

Projects are constructed from skeletons (mc/projtable.py, mc/projgen.py): version pattern x (old, new) state pair
x config format x file layout (1..3 files, 1..3 patterns per file, occurrences on own lines / several different
patterns on ONE line in every order / the same pattern on several lines, glob and repeated entries, config file
listed explicitly or implicitly) x line-ending regime x near-miss filler.  The real `update` runs in-process;
afterwards every constructed occurrence must show the new version rendered through its pattern by the reference
renderer, and config + `show` must report the announced version.
"""
import itertools
import re
import os

from .. import pool, projgen, world
from .. import projtable as pt
from ..ref import model as M
from ..stats import Stats, h64

ID = "C03"
LEVEL = "model_checking"
MIN_OUTCOMES = 2
MANIFEST = {
    'text': 'Complete enumeration of a constructed project table (pattern/state pairs x config formats x layouts x arrangements incl. all orders of different patterns on one line x line-ending regimes); each project is updated by the real CLI in-process and every occurrence, whose position and expected text are known by construction, is compared with the reference rendering; config value and `show` must equal the announced version. Further layouts: a $-anchored pattern in a file that mixes LF and CRLF lines (known finding); hidden files and directories under globs; a README with the bare {version}/{pep440_version} pair `init` writes and the version twice on a line; the same pattern two and three times on one line; occurrences glued to a letter or underscore; 20,000-character lines and a 6,000-line file with occurrences far apart; look-alike sections of other tools with their own current_version before the bumpver section; a config file that holds a second version line and is named only by a glob or another spelling of its path. The same layouts are run again with files that show ANOTHER version than the config (stale occurrences): every matched place must still end at the new version. One version case per TAG pattern ends in the tag `preview`.',
    'note': 'more than 3 occurrences per line and files beyond a few hundred bytes are outside the bound; {pep440_version} occurrences are judged by PEP 440 equality (packaging) with the announced version',
    'technique': 'exhaustive enumeration of a bounded project/layout space executed on the real CLI, by-construction oracle',
}
RULE = (
    "one evaluation = one constructed project updated by the real `bumpver update`; distinct non-trivial = distinct project "
    "(pattern, states, format, layout, arrangement, regime) whose update exited 0 and whose occurrences were all compared"
)
ASSUMPTIONS = ["reference renderer (mc/ref/model.py) gives the expected text of {version} and partial patterns"]

QUICK_REGIMES = ("LF", "CRLF", "CR", "CRLF+LF")
ALL_REGIMES = ("LF", "CRLF", "CR", "CRLF+LF", "LF+CR", "CRLF+CR")


def bounds(tier, seed):
    vc = pt.version_cases(tier)
    return {
        "version_cases": len(vc), "patterns": sorted({p.text for p, _l, _a, _b in vc}),
        "config_formats": list(formats(tier)), "max_patterns_per_file": "2 (+ 4 triples on one line in all orders)" if tier == "quick" else "3 (+ quadruples)",
        "max_files": 2 if tier == "quick" else 5, "regimes": list(QUICK_REGIMES if tier == "quick" else ALL_REGIMES),
    }


def formats(tier):
    return ("bumpver.toml", "setup.cfg") if tier == "quick" else ("bumpver.toml", "setup.cfg", "pyproject.toml")


def explore(tier, seed):
    vc = pt.version_cases(tier)
    chunks = [(tier, i, fmt) for i in range(len(vc)) for fmt in formats(tier)]
    return pool.run_chunks(run_chunk, chunks)


def layouts(pat, old, new, tier, fmt):
    """Yield (layout id, [FileSpec], entries for the config, explicit_cfg_entry)"""
    max_k = 2 if tier == "quick" else 3
    subsets = [s for s in projgen.pattern_subsets(pat, max_k) if pt.compatible(s, old, new)]
    if fmt == "setup.cfg":
        subsets = [s for s in subsets if all(pt.ini_expressible(fp.raw) for fp in s)]
    regimes = QUICK_REGIMES if tier == "quick" else ALL_REGIMES
    if tier == "quick":
        triples = [t for t in projgen.pattern_subsets(pat, 3) if len(t) == 3 and pt.compatible(t, old, new)
                   and not any(fp.anchor_l or fp.anchor_r for fp in t)]
        if fmt == "setup.cfg":
            triples = [t for t in triples if all(pt.ini_expressible(fp.raw) for fp in t)]
        for t in triples[:4]:
            ids = "+".join(fp.pid for fp in t)
            for order in itertools.permutations(range(3)):
                f = projgen.build_file("a.txt", t, ("one-line+own", order), "ascii", "LF", True)
                yield (f"one-line+own:{ids}:{order}", "several-patterns-on-one-line-and-again-on-own-lines", [f], [("a.txt", [fp.raw for fp in t])], False)
                f = projgen.build_file("a.txt", t, ("one-line", order), "ascii", "CRLF", False)
                yield (f"one-line:{ids}:{order}", "several-patterns-on-one-line", [f], [("a.txt", [fp.raw for fp in t])], False)
    for s in subsets:
        ids = "+".join(fp.pid for fp in s)
        nm, _rej = projgen.near_misses(pat, old, new, s)
        for regime in regimes if len(s) == 1 else regimes[:2]:
            f = projgen.build_file("a.txt", s, "own-lines", "ascii", regime, True, near_miss=nm)
            yield (f"own-lines:{ids}:{regime}", "own-lines", [f], [("a.txt", [fp.raw for fp in s])], False)
        if len(s) >= 2 and not any(fp.anchor_l or fp.anchor_r for fp in s):
            for order in itertools.permutations(range(len(s))):
                f = projgen.build_file("a.txt", s, ("one-line", order), "ascii", "LF", False)
                yield (f"one-line:{ids}:{order}", "several-patterns-on-one-line", [f], [("a.txt", [fp.raw for fp in s])], False)
        f = projgen.build_file("a.txt", s, ("repeat", 2), "ascii", "CRLF", True)
        yield (f"repeat:{ids}", "same-pattern-on-several-lines", [f], [("a.txt", [fp.raw for fp in s])], False)
        if len(s) == 1 and not (s[0].anchor_l or s[0].anchor_r):
            f = projgen.build_file("a.txt", s, "twice-on-a-line", "ascii", "CRLF", False)
            yield (f"twice:{ids}", "same-pattern-more-than-once-on-a-line", [f], [("a.txt", [fp.raw for fp in s])], False)
        if len(s) == 1 and not s[0].anchor_l:
            f = projgen.build_file("a.txt", s, "glued", "ascii", "LF", True)
            yield (f"glued:{ids}", "occurrences-glued-to-a-letter-or-underscore", [f], [("a.txt", [fp.raw for fp in s])], False)
        if len(s) >= 2 and not any(fp.anchor_l or fp.anchor_r for fp in s):
            for order in itertools.permutations(range(len(s))):
                f = projgen.build_file("a.txt", s, ("one-line+own", order), "ascii", "LF", True)
                yield (f"one-line+own:{ids}:{order}", "several-patterns-on-one-line-and-again-on-own-lines", [f], [("a.txt", [fp.raw for fp in s])], False)
        if len(s) == 1:
            for regime in regimes:
                f = projgen.build_file("a.txt", s, ("repeat-dense", 3), "ascii", regime, True)
                mixed = "+" in regime
                yield (f"repeat-dense:{ids}:{regime}", "same-pattern-on-consecutive-lines" + (":mixed-line-endings" if mixed else ""),
                       [f], [("a.txt", [fp.raw for fp in s])], False)
    # several files, glob entries, repeated entries, explicit config entry
    small = subsets[:6] if tier == "quick" else subsets[:10]
    for s1, s2 in itertools.product(small, small[:4]):
        f1 = projgen.build_file("a.txt", s1, "own-lines", "ascii", "LF", True)
        f2 = projgen.build_file("docs/b.txt", s2, "own-lines", "ascii", "CRLF", False)
        yield (f"two-files:{'+'.join(x.pid for x in s1)}/{'+'.join(x.pid for x in s2)}", "several-files", [f1, f2],
               [("a.txt", [fp.raw for fp in s1]), ("docs/b.txt", [fp.raw for fp in s2])], True)
    if tier != "quick":
        # five files (the statement's upper bound), and four patterns in one file
        five = small[:5]
        if len(five) == 5:
            regs = ["LF", "CRLF", "CR", "LF", "CRLF"]
            fs = [projgen.build_file(f"d{i}/f{i}.txt", s_, "own-lines" if i % 2 else ("repeat", 2), "ascii", regs[i], bool(i % 2)) for i, s_ in enumerate(five)]
            yield ("five-files", "several-files", fs, [(f.name, [fp.raw for fp in f.patterns]) for f in fs], True)
        quads = [q for q in projgen.pattern_subsets(pat, 4) if len(q) == 4 and pt.compatible(q, old, new) and not any(fp.anchor_l or fp.anchor_r for fp in q)]
        if fmt == "setup.cfg":
            quads = [q for q in quads if all(pt.ini_expressible(fp.raw) for fp in q)]
        for q in quads[:3]:
            ids = "+".join(fp.pid for fp in q)
            f = projgen.build_file("a.txt", q, "own-lines", "ascii", "LF", True)
            yield (f"own-lines:{ids}:LF", "own-lines", [f], [("a.txt", [fp.raw for fp in q])], False)
            for order in list(itertools.permutations(range(4)))[::5]:
                f = projgen.build_file("a.txt", q, ("one-line+own", order), "ascii", "LF", True)
                yield (f"one-line+own:{ids}:{order}", "several-patterns-on-one-line-and-again-on-own-lines", [f], [("a.txt", [fp.raw for fp in q])], False)
        for s1, s2, s3 in itertools.product(small[:4], small[:3], small[:3]):
            fs = [projgen.build_file(n, s, "own-lines", "ascii", r, True) for n, s, r in (("a.txt", s1, "LF"), ("b.txt", s2, "CR"), ("c.txt", s3, "CRLF"))]
            yield ("three-files", "several-files", fs, [(f.name, [fp.raw for fp in f.patterns]) for f in fs], False)
    for s in small:
        ids = "+".join(fp.pid for fp in s)
        fx = projgen.build_file("src/x.txt", s, "own-lines", "ascii", "LF", True)
        fy = projgen.build_file("src/y.txt", s, ("repeat", 2), "ascii", "LF", True)
        fh = projgen.build_file("src/.hidden.txt", s, "own-lines", "ascii", "LF", True)  # (a wildcard also reaches names with a leading dot)
        yield (f"glob:{ids}", "glob-entry", [fx, fy, fh], [("src/*.txt", [fp.raw for fp in s])], False)
        # recursive glob: files directly in src/, one level and three levels down
        deep = [projgen.build_file(n, s, "own-lines", "ascii", "LF", True) for n in ("src/top.txt", "src/pkg/mid.txt", "src/pkg/sub/deep/leaf.txt", "src/.ci/hidden-dir.txt")]
        yield (f"glob-recursive:{ids}", "recursive-glob-entry", deep, [("src/**/*.txt", [fp.raw for fp in s])], False)
        q = [projgen.build_file(n, s, "own-lines", "ascii", "LF", True) for n in ("docs/a1.txt", "docs/b2.txt")]
        yield (f"glob-charclass:{ids}", "glob-entry", q, [("docs/[ab]?.txt", [fp.raw for fp in s])], False)
        # the same file reached by a glob and by an explicit entry with another pattern (repeated entry)
        for extra in small:
            if len(extra) == 1 and extra[0].pid not in [fp.pid for fp in s] and pt.compatible(s + extra, old, new):
                both = s + extra
                fx2 = projgen.build_file("src/x.txt", both, "own-lines", "ascii", "LF", True)
                fz = projgen.build_file("src/z.txt", s, "own-lines", "ascii", "LF", True)
                yield (f"glob+explicit:{ids}+{extra[0].pid}", "repeated-entry", [fx2, fz],
                       [("src/*.txt", [fp.raw for fp in s]), ("README.md", [fp.raw for fp in s]), ("src/x.txt", [fp.raw for fp in extra])], False)
                break


def run_chunk(chunk):
    tier, idx, fmt = chunk
    st = Stats()
    import datetime as dt

    world.set_today(dt.date(2033, 3, 3))
    pat, label, old, new = pt.version_cases(tier)[idx]
    d = pool.fresh_dir("c03")
    os.chdir(d)
    n = 0
    for lid, arrangement, files, entries, explicit_cfg in layouts(pat, old, new, tier, fmt):
        run_project(st, pat, label, old, new, fmt, lid, arrangement, files, entries, explicit_cfg)
        n += 1
    # --set-version given in a non-canonical spelling that the pattern accepts (zero padded number)
    import re as _re

    new_text = M.render(pat.tree, new)
    alt = _re.sub(r"(?<![0-9])([1-9][0-9]*)$", lambda m: "0" + m.group(1), new_text)
    if alt != new_text and M.recognise(pat.tree, alt) == new:
        for lid, arrangement, files, entries, explicit_cfg in itertools.islice(layouts(pat, old, new, tier, fmt), 3):
            run_project(st, pat, label, old, new, fmt, lid, "set-version-respelled", files, entries, explicit_cfg, set_version=alt)
    # another tool's look-alike sections with their own current_version keys stand before the bumpver section
    plain = (l for l in layouts(pat, old, new, tier, fmt) if "mixed-line-endings" not in l[1])  # (mixed endings: the known finding, reported under its own name)
    for lid, arrangement, files, entries, explicit_cfg in itertools.islice(plain, 8 if tier == "quick" else 40):
        run_project(st, pat, label, old, new, fmt, lid, "look-alike-sections-before-the-config-section", files, entries, explicit_cfg, preamble=True)
    config_reached_indirectly(st, pat, label, old, new, fmt)
    if fmt == "bumpver.toml":
        size_projects(st, pat, label, old, new, fmt)
    init_default_readme(st, pat, label, old, new, fmt)
    if fmt == "bumpver.toml":
        anchored_in_mixed_endings(st, pat, label, old, new, fmt)
    # stale occurrences: the files show ANOTHER version than the config's current_version (a file that was not kept up to date,
    # or an update that starts from a tag on another branch); every matched place must still end up at the new version
    for k, stale in enumerate(stale_states(pat, old, new, tier)):
        taken = 0
        for lid, arrangement, files, entries, explicit_cfg in layouts(pat, old, new, tier, fmt):
            if not (arrangement in ("own-lines", "several-files", "glob-entry") and (lid.endswith(":LF") or arrangement != "own-lines")):
                continue
            if not all(pt.compatible(f.patterns, stale, new) for f in files):
                continue
            run_project(st, pat, label, old, new, fmt, lid, "stale-occurrences", files, entries, explicit_cfg, stale=(k, stale))
            taken += 1
            if tier == "quick" and taken >= 24:
                break
    if idx == 0:
        st.sample({"pattern": pat.text, "states": label, "format": fmt, "layouts": n})
    os.chdir("/")
    return st


def anchored_in_mixed_endings(st, pat, label, old, new, fmt):
    """A `$`-anchored pattern in a file that mixes LF and CRLF lines, one occurrence on a line of each kind."""
    old_text, new_text = M.render(pat.tree, old), M.render(pat.tree, new)
    for first, second in (("\n", "\r\n"), ("\r\n", "\n")):
        body = f"title{first}Version: {old_text}{first}mid{second}Version: {old_text}{second}end{second}"
        tree = {fmt: pt.config_text(fmt, pat.text, old_text, [("r.txt", ["Version: {version}$"])]).encode("utf-8"), "r.txt": body.encode("utf-8")}
        world.clear_dir(".")
        world.write_tree(tree)
        o = world.cli("update", "--no-fetch", "--ignore-vcs-tag", "--set-version", new_text)
        st.evaluations += 1
        st.transitions += 1
        name = {"\n": "LF", "\r\n": "CRLF"}
        case = {"pattern": pat.text, "states": label, "old": old_text, "new": new_text, "format": fmt, "mixed_anchored": name[first] + "-then-" + name[second]}
        after = world.read_tree(".").get("r.txt", b"").decode("utf-8", "replace")
        st.observe((case, o.exit, o.crashed, after))
        st.state("mixed-anchored", pat.text, label, after)
        if o.exit != 0:
            st.outcomes["update-refused:anchored-pattern-in-mixed-line-endings"] += 1
            continue
        st.validated += 1
        st.nontriv(case)
        want = body.replace(old_text, o.new_version)
        if after == want:
            st.outcomes["updated:anchored-pattern-in-mixed-line-endings"] += 1
            continue
        stale = [name[sep] for sep in (first, second) if f"Version: {old_text}{sep}" in after]
        st.outcomes["violation"] += 1
        st.violation("C03:occurrence:anchored-pattern:mixed-line-endings:stale-on-" + "+".join(stale or ["?"]) + "-terminated-line", case, {"content_after": after})


def init_default_readme(st, pat, label, old, new, fmt):
    """The file patterns `bumpver init` writes for a README - bare `{version}` and bare `{pep440_version}` - on a README that names the
    version twice on one line; for v-prefixed patterns the PEP 440 text occurs inside the version text (upstream's overlap rule keeps
    the earlier pattern's match)."""
    import packaging.version as pv

    from .. import bumpgraph as bg

    old_text, new_text = M.render(pat.tree, old), M.render(pat.tree, new)
    if not (bg.is_pep440(old_text) and bg.is_pep440(new_text)):
        return
    pep_old = pt.FilePattern("pep", "{pep440_version}", pat).old_text(old)

    def readme(v, pep):
        return f"# demo\n[![badge {v}](https://example.invalid/{v}.svg)]\n\n    pip install demo=={pep}\n\nsee {v}.\n"

    tree = {fmt: pt.config_text(fmt, pat.text, old_text, [("README.md", ["{version}", "{pep440_version}"])]).encode("utf-8"),
            "README.md": readme(old_text, pep_old).encode("utf-8")}
    world.clear_dir(".")
    world.write_tree(tree)
    o = world.cli("update", "--no-fetch", "--ignore-vcs-tag", "--set-version", new_text)
    st.evaluations += 1
    st.transitions += 1
    case = {"pattern": pat.text, "states": label, "old": old_text, "new": new_text, "format": fmt, "init_default_readme": True}
    after = world.read_tree(".").get("README.md", b"").decode("utf-8", "replace")
    st.observe((case, o.exit, o.crashed, after))
    st.state("init-readme", pat.text, label, after)
    if o.exit != 0:
        st.outcomes["update-refused:init-default-readme"] += 1
        st.counters["refused:" + ((o.logtext("ERROR").splitlines() or ["?"])[0][:60])] += 1
        return
    st.validated += 1
    st.nontriv(case)
    m = re.fullmatch(re.escape(readme("@V@", "@P@")).replace("@V@", "(.*)").replace("@P@", "(.*)"), after)
    ok = bool(m) and m.group(1) == m.group(2) == m.group(4) == o.new_version
    if ok:
        try:
            ok = pv.Version(m.group(3)) == pv.Version(o.new_version)
        except pv.InvalidVersion:
            ok = False
    if not ok:
        st.outcomes["violation"] += 1
        st.violation("C03:occurrence:readme-with-the-patterns-init-writes", case, {"announced": o.new_version, "README.md": after})
    else:
        st.outcomes["updated:init-default-readme"] += 1


def size_projects(st, pat, label, old, new, fmt):
    """Occurrences on very long lines (20,000 characters, as in minified files) and far apart in a file of 6,000 lines, next to
    ordinary ones: every one of them must show the new version."""
    old_text, new_text = M.render(pat.tree, old), M.render(pat.tree, new)
    occ = f"ver={old_text};"
    long_line = "x" * 9000 + " " + occ + " " + "y" * 11000
    layouts_ = {
        "long-line": ["header", occ + " short", long_line, "middle", long_line + " " + occ, "tail"],
        "many-lines": [(occ + f" at {i}") if i in (7, 2999, 3000, 5990) else f"line {i} of the changelog" for i in range(6000)],
    }
    for lid, lines in layouts_.items():
        body = "\n".join(lines) + "\n"
        tree = {fmt: pt.config_text(fmt, pat.text, old_text, [("big.txt", ["ver={version};"])]).encode("utf-8"), "big.txt": body.encode("utf-8")}
        world.clear_dir(".")
        world.write_tree(tree)
        o = world.cli("update", "--no-fetch", "--ignore-vcs-tag", "--set-version", new_text)
        st.evaluations += 1
        st.transitions += 1
        case = {"pattern": pat.text, "states": label, "old": old_text, "new": new_text, "format": fmt, "size_layout": lid}
        after = world.read_tree(".").get("big.txt", b"").decode("utf-8", "replace")
        st.observe((case, o.exit, o.crashed, h64(after)))
        st.state(lid, pat.text, label, h64(after))
        if o.exit != 0:
            st.outcomes["update-refused:" + lid] += 1
            continue
        st.validated += 1
        st.nontriv(case)
        want = body.replace(occ, f"ver={o.new_version};")
        if after != want:
            stale = after.count(occ)
            st.outcomes["violation"] += 1
            st.violation(f"C03:occurrence:{lid}", case, {"stale_occurrences": stale, "of": body.count(occ), "length_after": len(after), "expected_length": len(want)})
        else:
            st.outcomes["updated:" + lid] += 1


def config_reached_indirectly(st, pat, label, old, new, fmt):
    """The config file holds a second version line ([project] version = ...) and is named in file_patterns only through a glob or
    another spelling of its path, with an anchored pattern for that second line: both that line and current_version (through the
    implicit entry of the config file) must show the new version."""
    old_text, new_text = M.render(pat.tree, old), M.render(pat.tree, new)
    toml = fmt.endswith(".toml")
    q = '"' if toml else ""
    if not toml and not pt.ini_expressible("^version = {version}"):
        return
    for key in (("*.toml" if toml else "*.cfg"), "./" + fmt, "sub/../" + fmt):
        head = (f'[project]\nname = "demo"\nversion = {q}{old_text}{q}\n\n' if toml else f"[metadata]\nname = demo\nversion = {old_text}\n\n")
        body = pt.config_text(fmt, pat.text, old_text, [(key, [f"^version = {q}{{version}}{q}"]), ("a.txt", ["ver={version};"])])
        tree = {fmt: (head + body).encode("utf-8"), "a.txt": f"x\nver={old_text};\ny\n".encode(), "sub/keep.txt": b"keep\n"}
        world.clear_dir(".")
        world.write_tree(tree)
        o = world.cli("update", "--no-fetch", "--ignore-vcs-tag", "--set-version", new_text)
        st.evaluations += 1
        st.transitions += 1
        after = world.read_tree(".")
        case = {"pattern": pat.text, "states": label, "old": old_text, "new": new_text, "format": fmt, "config_entry_key": key}
        st.observe((case, o.exit, o.crashed, sorted(after.items())))
        st.state(sorted(after.items()))
        if o.exit != 0:
            st.outcomes["update-refused:config-reached-indirectly"] += 1
            st.counters["refused:" + ((o.logtext("ERROR").splitlines() or ["?"])[0][:60])] += 1
            continue
        st.validated += 1
        st.nontriv(case)
        st.outcomes["updated:config-reached-indirectly"] += 1
        text = after[fmt].decode("utf-8", "replace")
        cfgv = pt.read_config_version(fmt, text)
        m2 = re.search(r'^version = "?([^"\n]*)"?$', text, flags=re.M)
        problems = []
        if cfgv != o.new_version:
            problems.append(f"current_version is {cfgv!r}, announced {o.new_version!r}")
        if not m2 or m2.group(1) != o.new_version:
            problems.append(f"the [project]/[metadata] version line shows {m2.group(1) if m2 else None!r}, announced {o.new_version!r}")
        if f"ver={o.new_version};" not in after["a.txt"].decode("utf-8", "replace"):
            problems.append("a.txt not updated")
        for why in problems:
            st.outcomes["violation"] += 1
            st.violation("C03:config:config-file-named-only-by-glob-or-other-spelling", case, {"problem": why, "content_after": text[:400]})


def stale_states(pat, old, new, tier):
    """Other states of the same pattern (from the other version cases) - what a file that lags behind, or runs ahead, shows."""
    out = []
    for p2, _label, a, b in pt.version_cases(tier):
        if p2.text != pat.text:
            continue
        for s in (a, b):
            if s != old and s != new and s not in out:
                out.append(s)
    return out[:2] if tier == "quick" else out


LEGACY_PREAMBLE = {
    # another tool's section with a look-alike name and its own current_version key, standing BEFORE the bumpver section
    "setup.cfg": "[bumpversion]\ncurrent_version=0.0.9\ncommit = True\n\n[bumpver_notes]\ncurrent_version: 0.0.8\n\n",
    "bumpver.toml": "[bumpversion]\ncurrent_version='0.0.9'\n\n[tool.bumpversion]\ncurrent_version='0.0.8'\n\n",
    "pyproject.toml": "[tool.bumpversion]\ncurrent_version='0.0.9'\n\n[tool.bumpver-extras]\ncurrent_version='0.0.8'\n\n",
}


def build_project(pat, old, fmt, files, entries, explicit_cfg, file_state=None, cfg_eol="\n", preamble=False, extra_files=None):
    old_text = M.render(pat.tree, old)
    entries = list(entries)
    if any(e[0] == "README.md" for e in entries):
        # README.md carries the same occurrences as the first file
        readme = pt.FileSpec("README.md", files[-1].patterns, files[-1].lines, files[-1].seps, files[-1].final_sep)
        files = files + [readme]
    if explicit_cfg:
        own = 'current_version = "{version}"' if fmt.endswith(".toml") else "current_version = {version}"
        entries = [(fmt, [own])] + entries
    # the config file is a pattern file too: it carries non-ASCII text (a comment) that must survive, in any locale
    tree = {fmt: ((LEGACY_PREAMBLE[fmt] if preamble else "") + pt.config_text(fmt, pat.text, old_text, entries, extra="# préambule € \U0001F680"))
            .replace("\n", cfg_eol).encode("utf-8"),
            "bystander.txt": (old_text + "\n").encode()}
    for f in files:
        tree[f.name] = f.render_old(file_state or old).encode("utf-8")
    for name, data in (extra_files or {}).items():
        tree[name] = data  # files NOT named by the configuration (they may look exactly like configured ones)
    return tree, files


def run_project(st, pat, label, old, new, fmt, lid, arrangement, files, entries, explicit_cfg, want=("occurrence",), prefix="C03", set_version=None,
                stale=None, cfg_eol="\n", preamble=False, extra_files=None):
    old_text, new_text = M.render(pat.tree, old), M.render(pat.tree, new)
    if set_version is not None:
        new_text = set_version
    tree, files = build_project(pat, old, fmt, files, entries, explicit_cfg, file_state=stale[1] if stale else None, cfg_eol=cfg_eol, preamble=preamble, extra_files=extra_files)
    # the property excludes surrounding text that itself matches a configured pattern: such projects are not generated
    for f in files:
        for line in f.lines:
            for seg in line:
                if seg[0] == "t" and seg[1] and any(fp.ref_search(seg[1], None) for fp in f.patterns):
                    st.counters["projects_rejected_filler_matches_a_configured_pattern"] += 1
                    return None, None, None
    world.clear_dir(".")
    world.write_tree(tree)
    by_mtime = os.stat("bystander.txt").st_mtime_ns
    o = world.cli("update", "--no-fetch", "--ignore-vcs-tag", "--set-version", new_text)
    st.evaluations += 1
    st.transitions += 1
    after = world.read_tree(".")
    by_touched = os.stat("bystander.txt").st_mtime_ns != by_mtime if os.path.exists("bystander.txt") else True
    case = {"pattern": pat.text, "states": label, "old": old_text, "new": new_text, "format": fmt, "layout": lid}
    if set_version is not None:
        case["respelled"] = True
    if preamble:
        case["preamble"] = True
    if stale is not None:
        case["stale"] = stale[0]
        case["files_show"] = M.render(pat.tree, stale[1])
    st.observe((case, o.exit, o.crashed, sorted(after.items())))
    st.state(sorted(after.items()))
    if o.exit != 0:
        reason = "crash" if o.crashed else (o.logtext("ERROR").splitlines() or ["?"])[0][:60]
        st.outcomes[f"update-refused:{arrangement}"] += 1
        st.counters[f"refused:{reason}"] += 1
        return o, after, tree
    st.validated += 1
    st.nontriv(case)
    st.outcomes[f"updated:{arrangement}"] += 1
    announced = o.new_version
    problems = []
    for f in files:
        content = after[f.name].decode("utf-8", errors="surrogateescape")
        for kind, why in f.compare_new(content, new, announced or new_text):
            if kind in want:
                problems.append((kind, f.name, why))
        if set_version is not None and announced is not None:
            # {version} occurrences must EQUAL the announced version (statement), not merely denote it
            for (_i, _j, fp) in f.occurrences():
                if fp.raw == "{version}" and announced not in content:
                    problems.append(("occurrence", f.name, f"announced {announced!r} but the file holds another spelling"))
    if "occurrence" in want:
        cfgv = pt.read_config_version(fmt, after[fmt].decode("utf-8", "replace"))
        if cfgv != announced:
            problems.append(("config", fmt, f"current_version is {cfgv!r}, announced {announced!r}"))
        o2 = world.cli("show", "--no-fetch", "--ignore-vcs-tag")
        st.evaluations += 1
        shown = [l[len("Current Version: "):] for l in o2.stdout.splitlines() if l.startswith("Current Version: ")]
        if o2.exit != 0 or shown != [announced]:
            problems.append(("show", fmt, f"show reports {shown!r} (exit {o2.exit}), announced {announced!r}"))
    if "bytes" in want:
        # the config file: only the version on its current_version line may change
        before_cfg = tree[fmt].decode("utf-8").split("\n")
        after_cfg = after[fmt].decode("utf-8", errors="surrogateescape").split("\n")
        exp_cfg = [(l.replace(old_text, announced or new_text, 1) if l.startswith("current_version") else l) for l in before_cfg]
        if after_cfg != exp_cfg:
            problems.append(("bytes", fmt, "config file changed outside its current_version value"))
        for name, data in tree.items():
            if name not in [f.name for f in files] and name != fmt and after.get(name) != data:
                problems.append(("bystander", name, "file not named in the configuration was written"))
        for name in after:
            if name not in tree:
                problems.append(("bystander", name, "new file created"))
        if by_touched:
            problems.append(("bystander", "bystander.txt", "file not named in the configuration was opened for writing (mtime changed)"))
    for kind, fname, why in problems:
        st.outcomes["violation"] += 1
        st.violation(f"{prefix}:{kind}:{arrangement}:{label if kind == 'occurrence' and arrangement == 'own-lines' else ''}".rstrip(":"),
                     case, {"file": fname, "problem": why, "content_after": after.get(fname, b"")[:400]})
    return o, after, tree


def replay(case, st):
    import datetime as dt

    world.set_today(dt.date(2033, 3, 3))
    tier = "thorough"
    d = pool.fresh_dir("c03r")
    os.chdir(d)
    for tr in ("quick", "thorough"):
        for pat, label, old, new in pt.version_cases(tr):
            if pat.text == case["pattern"] and label == case["states"]:
                for lid, arrangement, files, entries, explicit_cfg in layouts(pat, old, new, tr, case["format"]):
                    if lid == case["layout"]:
                        if case.get("respelled"):
                            arrangement = "set-version-respelled"
                        stale = None
                        if case.get("mixed_anchored"):
                            anchored_in_mixed_endings(st, pat, label, old, new, case["format"])
                            os.chdir("/")
                            return
                        if case.get("init_default_readme"):
                            init_default_readme(st, pat, label, old, new, case["format"])
                            os.chdir("/")
                            return
                        if case.get("size_layout"):
                            size_projects(st, pat, label, old, new, case["format"])
                            os.chdir("/")
                            return
                        if case.get("config_entry_key"):
                            config_reached_indirectly(st, pat, label, old, new, case["format"])
                            os.chdir("/")
                            return
                        if case.get("preamble"):
                            arrangement = "look-alike-sections-before-the-config-section"
                        if "stale" in case:
                            arrangement = "stale-occurrences"
                            stale = (case["stale"], stale_states(pat, old, new, "thorough")[case["stale"]])
                            if M.render(pat.tree, stale[1]) != case["files_show"]:
                                stale = (case["stale"], stale_states(pat, old, new, "quick")[case["stale"]])
                        run_project(st, pat, label, old, new, case["format"], lid, arrangement, files, entries, explicit_cfg,
                                    set_version=case["new"] if case.get("respelled") else None, stale=stale, preamble=bool(case.get("preamble")))
                        os.chdir("/")
                        return
    os.chdir("/")
