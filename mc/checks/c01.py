"""C01 - a successful bump yields a valid, strictly greater version.

Transition system as C05 (state = (pattern, version)); events = flag sets AND --set-version targets; each
event is executed through `test`, and - for the update subset - also through `update --dry` and `update`
in a scratch project.  Oracle (independent of the bump rules): exit 0 => announced version full-matches
the reference recogniser of the pattern and is strictly greater (PEP 440) than the start version;
exit != 0 => no file changed.
"""
import itertools
import os
import re

from .. import bumpgraph as bg
from .. import grammar, pool, world
from ..ref import model as M
from ..stats import Stats

ID = "C01"
LEVEL = "model_checking"
MIN_OUTCOMES = 4
MANIFEST = {
    'text': 'Explicit-state exploration of the bump transition system on the real command bodies: from every (pattern, seed state; the grammar plus six patterns with a less significant calendar part in front) all 2^5 flags x 5 tag choices (none, dev, rc, post, final) x 4 date kinds run through `test`; a sub-alphabet plus every constructed --set-version target (greater, equal, lower, PEP 440-equal respellings, other-scheme, junk, empty) run through test, update --dry and update in a scratch project; and, with tags served by a fake git, every placement of 5 (thorough 7) tags x scope x config position x bump flags (incl. a failing fetch, the scope given on the command line against a config naming another one, and `.git` being a file as in linked work trees) through update --dry; 14 malformed flag shapes (impossible dates, unknown tags, conflicting or dangling options) through test/update: whenever a run exits 0 the announced version full-matches the reference recogniser and is strictly greater than the reference start version (config or newest tag in scope); otherwise no byte of any file changes.',
    'note': "order for non-PEP 440 strings uses bumpver's own key (C16 validates it); start-version rule shared with C09's reference",
    'technique': 'explicit-state model checking of the implementation: invariant on every transition of the bounded bump graph',
}
RULE = (
    "state = (pattern, version); transition = one execution of test / update --dry / update for one event; "
    "distinct non-trivial = distinct (pattern, state, event) that exited 0 and had the invariant evaluated"
)
ASSUMPTIONS = [
    "reference recogniser (mc/ref/model.py) decides 'matches the pattern in full'",
    "packaging.version decides PEP 440 order; bumpver's key is used only when a string is not PEP 440",
]

TEST_TAGS = (None, "dev", "rc", "post", "final")  # (dev sorts BELOW every pre-release of the same number, post above the final release)
TEST_DATES = ("pin", "same", "next-year", "-400d")


# patterns of the documented language in which a LESS significant calendar part stands before a more significant one (or unpadded parts are
# glued): the version that follows a month / year boundary is lower under PEP 440 - such a bump must be refused, not announced
REVERSED_CALENDAR = ["MM.YYYY", "0D.0M.YYYY", "WW.YYYY.PATCH", "YYYYMM", "0M.0D.YY", "DD.MM.YYYY[-TAG]"]


def pattern_set(tier, seed):
    extra = [grammar.Pat(M.parse_pattern(t)) for t in REVERSED_CALENDAR]
    if tier == "thorough":
        core, flt = grammar.generate("core")
        return core + extra, flt
    core, flt = grammar.generate("core", prefixes=("",))
    n = len(grammar.README_PATTERNS)
    nsl = 20
    rest = core[n:]
    return core[:n] + extra + rest[seed % nsl :: nsl], flt


def bounds(tier, seed):
    pats, flt = pattern_set(tier, seed)
    return {
        "patterns": len(pats),
        "test_events_per_state": 32 * len(TEST_TAGS) * len(TEST_DATES),
        "update_events_per_state": "8 flag sets x 2 tags x 3 date kinds + all set-version targets, each via test, update --dry, update",
        "filtered_out_of_grammar": dict(flt),
        "quick_slice": f"{seed % 20} of 20" if tier == "quick" else "all",
    }


def explore(tier, seed):
    pats, _ = pattern_set(tier, seed)
    chunks = [(p.text, tier) for p in pats]
    # start version taken from VCS tags (fake git): the announced version must exceed the newest tag in scope
    from . import c09

    for name in c09.PATTERNS:
        for pos in ("below", "between", "above"):
            chunks.append(("@tags", name, pos, 5 if tier == "quick" else 7))
    return pool.run_chunks(run_chunk, chunks)


def run_tags_chunk(chunk):
    """Tag placements x scopes: `update --dry` must announce a version greater than the reference start version."""
    import datetime as dt

    from .. import fakevcs
    from . import c09

    _k, name, pos, n = chunk
    st = Stats()
    world.set_today(dt.date(2020, 3, 20))
    d = pool.fresh_dir("c01t")
    os.chdir(d)
    P = c09.PATTERNS[name]
    tags = P["tags"][:n]
    cfgv = P["configs"][pos]
    for placement in itertools.product(c09.PLACES, repeat=n):
        served_all = [t for t, pl in zip(tags, placement) if pl != "absent"]
        served_head = [t for t, pl in zip(tags, placement) if pl == "head"]
        for scope in c09.SCOPES:
          others = [x for x in c09.SCOPES if x != scope]
          for bump, fetch_fault, cfg_scope in [(b_, False, None) for b_ in P.get("bumps", [P["bump"]])] + [(P["bump"], True, None)] + \
                  [(P["bump"], False, others[sum(map(len, served_all)) % 2])]:
            # cfg_scope: the config names another scope and the one under test comes from --tag-scope on the command line
            world.clear_dir(".")
            world.write_tree(c09.project(name, cfgv, cfg_scope or scope))
            world.mark_repo("git", as_file=bool(cfg_scope))  # the command-line-scope runs also have `.git` as a FILE (linked work tree)
            # fetch_fault: a remote exists, fetching is on (the default) and `git fetch` fails (offline)
            fake = fakevcs.install(fakevcs.FakeVCS("git", tags_all=served_all, tags_merged=served_head, status=[],
                                                   fail=("fetch", 0) if fetch_fault else None))
            try:
                o = world.cli("update", "--dry", "--fetch" if fetch_fault else "--no-fetch", *(["--tag-scope", scope] if cfg_scope else []), *bump)
            finally:
                fakevcs.uninstall()
            st.evaluations += 1
            st.transitions += 1
            st.validated += 1
            st.state("tags", name, pos, scope, placement, cfg_scope)
            st.observe((name, pos, scope, cfg_scope, placement, o.exit, o.new_version))
            case = {"tags_case": name, "config": cfgv, "scope": scope, "bump": bump, "fetch_fails": fetch_fault, "config_scope": cfg_scope, "tags": {t: pl for t, pl in zip(tags, placement) if pl != "absent"}}
            if o.exit != 0:
                st.outcomes["update --dry:refused(tags)"] += 1
                continue
            st.outcomes["update --dry:ok(tags)"] += 1
            st.nontriv("tags", name, pos, scope, placement)
            want = c09.expected_start(name, cfgv, scope, False, placement, tags)
            new = o.new_version
            if new is None or not all(bg.greater(new, s_) for s_ in want):
                st.violation(f"C01:announced-version-not-greater-than-newest-tag-in-scope:{name}:{scope}" + (":fetch-failed" if fetch_fault else "") + (":scope-on-command-line" if cfg_scope else ""), case,
                             {"announced": new, "reference_start_version": sorted(want), "old_version_line": o.old_version})
        # a REAL (not dry) committing update told to ignore the tags and to set the version to one that already exists as a tag:
        # whatever is decided, a non-zero exit must leave every file as it was (the tag step cannot succeed: the tag exists)
        # ... and a real committing update whose commit message template cannot be rendered (unknown placeholder)
        if sum(map(len, served_all)) % 4 == 0:
            world.clear_dir(".")
            tree = c09.project(name, cfgv, "default")
            world.write_tree(tree)
            world.mark_repo("git")
            fake = fakevcs.install(fakevcs.FakeVCS("git", tags_all=served_all, tags_merged=served_head, status=[], remote=None))
            try:
                o = world.cli("update", "--no-fetch", *P["bump"], "--commit-message", "bump {new_versio}")
            finally:
                fakevcs.uninstall()
            after = world.read_tree(".")
            st.evaluations += 1
            st.transitions += 1
            st.validated += 1
            st.observe((name, pos, placement, "bad-template", o.exit, sorted(after.items())))
            if o.exit != 0 and after != tree:
                st.violation(f"C01:files-changed-by-failed-update:message-template-cannot-be-rendered:{name}",
                             {"tags_case": name, "config": cfgv, "scope": "default", "bad_template": True, "tags": {x: pl for x, pl in zip(tags, placement) if pl != "absent"}},
                             {"exit": o.exit, "effects": fake.effect_names(), "crashed": o.crashed})
            else:
                st.outcomes["update:refused(bad template)" if o.exit != 0 else "update:ok(bad template?)"] += 1
        cands = [t for t in served_all if c09.classify_tag(name, t) == "match" and bg.greater(t, cfgv)][:1]
        for t in cands:
            for scope in c09.SCOPES:
                world.clear_dir(".")
                tree = c09.project(name, cfgv, scope)
                world.write_tree(tree)
                world.mark_repo("git")
                fake = fakevcs.install(fakevcs.FakeVCS("git", tags_all=served_all, tags_merged=served_head, status=[], remote=None))
                try:
                    o = world.cli("update", "--no-fetch", "--ignore-vcs-tag", "--set-version", t)
                finally:
                    fakevcs.uninstall()
                after = world.read_tree(".")
                st.evaluations += 1
                st.transitions += 1
                st.validated += 1
                st.observe((name, pos, scope, placement, "set-existing", t, o.exit, sorted(after.items())))
                case = {"tags_case": name, "config": cfgv, "scope": scope, "set_version_of_existing_tag": t, "tags": {x: pl for x, pl in zip(tags, placement) if pl != "absent"}}
                if o.exit != 0 and after != tree:
                    st.violation(f"C01:files-changed-by-failed-update:set-version-of-existing-tag:{name}:{scope}", case,
                                 {"exit": o.exit, "effects": fake.effect_names(), "log": o.log[-3:]})
                elif o.exit != 0:
                    st.outcomes["update:refused(existing tag)"] += 1
                else:
                    st.outcomes["update:ok(existing tag, ignored)"] += 1
    os.chdir("/")
    return st


def set_version_targets(pat, state, old_text):
    """Constructed from the state by the reference renderer - label, text."""
    out = [("equal", old_text), ("empty", ""), ("junk-suffix", old_text + "x"), ("junk-prefix", "x" + old_text)]
    names = pat.names
    num_fields = [f for f in pat.fields if f in ("major", "minor", "patch", "inc0", "inc1", "num")]
    for f in num_fields:
        up = dict(state)
        up[f] += 1
        out.append((f"greater:{f}", M.render(pat.tree, up)))
        if state[f] > (1 if f == "inc1" else 0):
            dn = dict(state)
            dn[f] -= 1
            out.append((f"lower:{f}", M.render(pat.tree, dn)))
    if "bid" in pat.fields:
        nb = M.next_build(state["bid"])
        if nb:
            out.append(("greater:bid", M.render(pat.tree, dict(state, bid=nb))))
        if int(state["bid"]) > 1:
            out.append(("lower:bid", M.render(pat.tree, dict(state, bid=str(int(state["bid"]) - 1).zfill(len(state["bid"]))))))
    if "year" in pat.fields:
        out.append(("greater:year", M.render(pat.tree, dict(state, year=state["year"] + 1))))
        out.append(("lower:year", M.render(pat.tree, dict(state, year=state["year"] - 1))))
    if "tag" in pat.fields:
        for t in ("dev", "alpha", "beta", "rc", "post", "final"):
            if t != state["tag"]:
                out.append((f"tag:{t}", M.render(pat.tree, dict(state, tag=t))))
    g = [t for (lbl, t) in out if lbl.startswith("greater")]
    if g:
        out.append(("greater+junk", g[0] + "-junk"))
        out.append(("greater+space", g[0] + " "))
        out.append(("greater+dot-zero", g[0] + ".0"))
    # PEP 440-equal but textually different spellings
    out.append(("equal+dot-zero", old_text + ".0"))
    out.append(("equal+zero-padded", re.sub(r"(\d+)$", lambda m: "0" + m.group(1), old_text)))
    out.append(("equal+toggle-v", old_text[1:] if old_text.startswith("v") else "v" + old_text))
    if "tag" in pat.fields and state["tag"] != "final":
        short = M.PYTAG[state["tag"]]
        out.append(("equal+tag-respelled", old_text.replace("-" + state["tag"], short + "0").replace(state["tag"], short)))
    out += [("other-scheme:calver", "2020.1001-beta"), ("other-scheme:semver", "1.2.3"), ("other-scheme:v", "v2021.12.31")]
    seen, uniq = set(), []
    for lbl, t in out:
        if t not in seen:
            seen.add(t)
            uniq.append((lbl, t))
    return uniq


CFG = '[bumpver]\ncurrent_version = "{v}"\nversion_pattern = "{p}"\n\n[bumpver.file_patterns]\n"bumpver.toml" = [\'current_version = "{{version}}"\']\n"a.txt" = ["{{version}}"]\n'


def project_files(pat, old_text):
    return {
        "bumpver.toml": CFG.format(v=old_text, p=pat.text).encode(),
        "a.txt": f"first line\nversion: {old_text} (released)\nlast line".encode(),
        "bystander.txt": f"{old_text}\n".encode(),
    }


def run_chunk(chunk):
    if chunk[0] == "@tags":
        return run_tags_chunk(chunk)
    text, tier = chunk
    st = Stats()
    pat = grammar.Pat(M.parse_pattern(text))
    world.set_today(bg.FAR_TODAY)
    d = pool.fresh_dir("c01")
    os.chdir(d)
    has_cal = any(f in M.CAL_FIELDS for f in pat.fields)
    frontier = [(s, 1) for s in grammar.seeds(pat)]
    depth = 2 if (tier == "thorough" and text in grammar.README_PATTERNS) else 1
    seen = set()
    while frontier:
        state, dep = frontier.pop(0)
        old_text = M.render(pat.tree, state)
        if old_text in seen or M.recognise(pat.tree, old_text) != state:
            continue
        seen.add(old_text)
        st.state(text, old_text)
        succ = explore_state(st, pat, state, old_text, has_cal, malformed=len(seen) <= 2)
        if dep < depth:
            for t in succ[:12]:
                ns = M.recognise(pat.tree, t)
                if ns is not None:
                    frontier.append((ns, dep + 1))
    os.chdir("/")
    return st


MALFORMED = [
    ["--date", "2021-13-01"], ["--date", "2021-02-30"], ["--date", "garbage"], ["--date", "20210301"], ["--date", "2021-03-01T00:00"],
    ["--tag", "gamma"], ["--tag", "RC"], ["--tag", ""], ["--tag", "rc1"], ["--pin-date", "--date", "2031-01-01"],
    ["--frobnicate"], ["--set-version"], ["--major", "--date"], ["--tag"],
]


def malformed_flags(st, pat, old_text, files):
    """Flag VALUES outside the documented domains (dates that do not exist, unknown tags, conflicting or dangling options), through the
    real argv parser: whatever the exit status, the C01 alternative must hold - exit 0 with a matching, greater version, or
    non-zero with every file unchanged."""
    for extra in MALFORMED:
        for cmd in ("test", "update --dry", "update"):
            world.write_tree({k: v for k, v in files.items() if world.read_tree(".").get(k) != v})
            if cmd == "test":
                argv = ["test", old_text, pat.text] if not old_text.startswith("-") else ["test", "--", old_text, pat.text]
                argv = [argv[0]] + extra + argv[1:] if "--" in argv else argv + extra
            else:
                argv = ["update", "--no-fetch"] + (["--dry"] if "dry" in cmd else []) + ["--patch"] + extra
            o = world.cli(*argv)
            after = world.read_tree(".")
            st.evaluations += 1
            st.transitions += 1
            case = {"pattern": pat.text, "old": old_text, "argv": argv, "label": "malformed-flag:" + extra[0], "cmd": cmd}
            st.observe((old_text, argv, o.exit, o.new_version))
            if o.exit == 0 or o.new_version is None:
                invariant(st, pat, old_text, o, cmd, case)
            else:
                st.validated += 1
                st.outcomes[f"{cmd}:refused"] += 1
            if (o.exit != 0 or "dry" in cmd or cmd == "test") and after != files:
                st.violation(f"C01:files-changed-by-refused-or-dry-command:malformed-flag:{extra[0]}", case,
                             {"exit": o.exit, "changed": [k for k in after if after[k] != files.get(k)]})
    world.write_tree({k: v for k, v in files.items() if world.read_tree(".").get(k) != v})


def explore_state(st, pat, state, old_text, has_cal, malformed=False):
    base = grammar.seed_date(state)
    succ = []
    dates = TEST_DATES if has_cal else ("pin", "same")
    # (1) flag events through `test`
    for flags in itertools.product((False, True), repeat=5):
        for tag in TEST_TAGS:
            for k in dates:
                rev = bg.ref_event(flags[:3] + (tag,) + flags[3:] + (k,), base)
                o = bg.impl_test(pat.text, old_text, rev)
                st.evaluations += 1
                st.transitions += 1
                got = invariant(st, pat, old_text, o, "test", {"pattern": pat.text, "old": old_text, "args": bg.cli_args(rev)})
                st.observe((old_text, flags, tag, k, o.exit, got))
                if got and got not in succ:
                    succ.append(got)
    # (2) update subset + set-version targets: test / update --dry / update must agree
    files = project_files(pat, old_text)
    world.clear_dir(".")
    world.write_tree(files)
    events = []
    for mj, mn, pa in itertools.product((False, True), repeat=3):
        for tag in (None, "rc"):
            for k in ("pin", "same", "next-year") if has_cal else ("pin",):
                events.append((bg.ref_event((mj, mn, pa, tag, False, False, k), base), None, "flags"))
    none_rev = bg.ref_event((False, False, False, None, False, False, "pin"), base)
    for lbl, target in set_version_targets(pat, state, old_text):
        events.append((none_rev, target, "set-version:" + lbl.split(":")[0]))
    for rev, target, label in events:
        three_ways(st, pat, old_text, files, rev, target, label)
    if malformed:
        malformed_flags(st, pat, old_text, files)
    if old_text in ("1.2.3", "2020.1001", "v202006.1001"):
        st.sample({"pattern": pat.text, "state": old_text, "set_version_targets": [t for (_r, t, _l) in events if t is not None][:12]})
    return succ


def invariant(st, pat, old_text, o, cmd, case):
    """The C01 invariant for one observation; returns the announced version if exit 0."""
    st.validated += 1
    if o.exit != 0:
        st.outcomes[f"{cmd}:refused" + (":crash" if o.crashed else "")] += 1
        return None
    new = o.new_version
    if new is None:
        st.violation(f"C01:exit-0-without-announcing-a-version:{cmd}", case, {"stdout": o.stdout, "log": o.log[-3:]})
        return None
    st.outcomes[f"{cmd}:ok"] += 1
    st.nontriv(pat.text, old_text, repr(case.get("args")))
    if M.recognise(pat.tree, new) is None:
        st.violation(f"C01:announced-version-does-not-match-pattern:{cmd}:{_kind(case)}", case, {"announced": new})
    elif not bg.greater(new, old_text):
        st.violation(f"C01:announced-version-not-greater:{cmd}:{_kind(case)}", case, {"announced": new, "old": old_text})
    return new


def _kind(case):
    return case.get("label", "flags")


def update_kwargs(rev, target, dry):
    return dict(
        dry=dry, fetch=False, major=rev["major"], minor=rev["minor"], patch=rev["patch"], tag=rev["tag"],
        tag_num=rev["tag_num"], pin_increments=rev["pin_increments"], pin_date=rev["pin_date"],
        date=None if rev["date"] is None else rev["date"].isoformat(), set_version=target,
    )


def three_ways(st, pat, old_text, files, rev, target, label):
    case = {"pattern": pat.text, "old": old_text, "args": bg.cli_args(rev, target), "label": label}
    o_test = bg.impl_test(pat.text, old_text, rev, set_version=target)
    o_dry = world.callback("update", **update_kwargs(rev, target, True))
    after_dry = world.read_tree(".")
    o_real = world.callback("update", **update_kwargs(rev, target, False))
    after_real = world.read_tree(".")
    st.evaluations += 3
    st.transitions += 3
    got = [invariant(st, pat, old_text, o, cmd, dict(case, cmd=cmd)) for o, cmd in ((o_test, "test"), (o_dry, "update --dry"), (o_real, "update"))]
    st.observe((old_text, case["args"], [o.exit for o in (o_test, o_dry, o_real)], got))
    st.state(pat.text, old_text, "files", sorted(after_real.items()))
    if o_dry.exit != 0 and after_dry != files:
        st.violation(f"C01:failed-dry-run-changed-files:{label}", case, {"changed": [k for k in after_dry if after_dry[k] != files.get(k)]})
    # (that test / update --dry / update agree with each other is not part of C01's statement: `update` does not
    #  validate flag applicability the way `test` does; disagreement is only counted)
    if len({(o.exit == 0) for o in (o_test, o_dry, o_real)}) != 1 or len(set(got)) != 1:
        st.counters["info_test_dry_update_differ"] += 1
    for o in (o_test, o_dry, o_real):
        if o.crashed:
            st.counters["info_crash:" + o.crashed.split(":")[0] + ":" + label] += 1
    if o_real.exit != 0:
        if after_real != files:
            st.violation(f"C01:failed-update-changed-files:{label}", case, {"exit": o_real.exit, "changed": [k for k in after_real if after_real[k] != files.get(k)]})
    else:
        world.write_tree({k: files[k] for k in files if after_real.get(k) != files[k]})


def replay(case, st):
    import datetime as dt

    world.set_today(bg.FAR_TODAY)
    if "tags_case" in case:
        from . import c09

        pos = [k for k, v in c09.PATTERNS[case["tags_case"]]["configs"].items() if v == case["config"]][0]
        st.merge(run_tags_chunk(("@tags", case["tags_case"], pos, 5)))
        return
    pat = grammar.Pat(M.parse_pattern(case["pattern"]))
    if "argv" in case:
        d = pool.fresh_dir("c01r")
        os.chdir(d)
        files = project_files(pat, case["old"])
        world.write_tree(files)
        malformed_flags(st, pat, case["old"], files)
        os.chdir("/")
        return
    args = case["args"]
    rev = {"major": "--major" in args, "minor": "--minor" in args, "patch": "--patch" in args,
           "tag": args[args.index("--tag") + 1] if "--tag" in args else None, "tag_num": "--tag-num" in args,
           "pin_increments": "--pin-increments" in args, "pin_date": "--pin-date" in args,
           "date": dt.date.fromisoformat(args[args.index("--date") + 1]) if "--date" in args else None}
    target = args[args.index("--set-version") + 1] if "--set-version" in args else None
    d = pool.fresh_dir("c01r")
    os.chdir(d)
    files = project_files(pat, case["old"])
    world.write_tree(files)
    if "label" in case:
        three_ways(st, pat, case["old"], files, rev, target, case["label"])
    else:
        o = bg.impl_test(pat.text, case["old"], rev, set_version=target)
        st.observe((o.exit, o.new_version))
        invariant(st, pat, case["old"], o, "test", case)
    os.chdir("/")
