"""C16 - version comparison is a total preorder that agrees with PEP 440.

Space: a bounded string grammar (PEP 440 spellings + legacy/junk strings), enumerated completely; the
implementation's comparison is evaluated on ALL ordered pairs and checked against (i) an order embedding
into the integers built from its own sort (reflexive/transitive/total at once), (ii) packaging.version
for validity, canonical text and order, (iii) legacy < PEP 440.
"""
import itertools

import packaging.version as pv

import bumpver.version as bvversion

from .. import pool
from ..stats import Stats

ID = "C16"
LEVEL = "exploration"
MIN_OUTCOMES = 3
MANIFEST = {
    'text': 'Every string of a stated finite grammar (PEP 440 spellings with epochs, pre/post/dev/local segments, separators, leading zeros, case and blanks, numbers at and beyond 2**63 in every numeric position; bumpver-style and junk legacy strings) is parsed by the real comparison entry point, and ALL ordered pairs are compared with all six operators: agreement with an integer rank embedding proves the preorder laws on the whole set, agreement with packaging.version proves PEP 440 order and canonical text; exhaustive over the grammar. The two CLI call sites of the comparison (newest of config value and tag in `show`, the gate of `update --set-version`) are run for all ordered pairs of 13 versions whose text order differs from their PEP 440 order.',
    'note': 'trusted base: packaging.version 26.3 as the PEP 440 reference; strings outside the grammar are not covered',
    'technique': 'exhaustive enumeration of a bounded input grammar, all-pairs comparison against rank embedding and reference order',
}
RULE = (
    "one evaluation = one ordered pair (a, b) of grammar strings compared with < <= == != >= > on the real keys; "
    "distinct non-trivial = distinct strings whose parse succeeded as PEP 440 or legacy (all of them) counted once each"
)
ASSUMPTIONS = ["packaging.version 26.3 implements PEP 440 ordering and normalisation (reference)"]

RELEASES = ["0", "0.0", "0.0.0", "1", "1.0", "1.0.0", "1.1", "1.10", "01.2", "2", "2020.1001", "201811.0007"]  # (all-zero releases of three lengths are equal)
NUMS = ("", "0", "1", "01", "10")  # number absent / zero / one / leading zero / two digits
PRE_FULL = (
    [l + n for l in ("a", "b", "c", "rc", "alpha", "beta", "pre", "preview") for n in NUMS]
    + [s + l + n for l in ("a", "rc") for s in (".", "-", "_") for n in ("", "0", "1")]
    + [l + s + n for l in ("a", "rc", "beta") for s in (".", "-", "_") for n in ("0", "2")]
    + ["-alpha.2", "_rc_0"]
)
POST_FULL = (
    [s + l + n for l in ("post", "rev", "r") for s in ("", ".", "-", "_") for n in NUMS]
    + ["-0", "-1", "-01", "-10", ".post.2", "-post-0", "post_3"]  # implicit post release: <release>-N
)
DEV_FULL = [s + "dev" + n for s in ("", ".", "-", "_") for n in NUMS] + [".dev.2", "dev-0", "dev_1"]
LOCAL_FULL = ["+abc", "+1", "+0", "+abc.1", "+ABC_1", "+abc-1", "+01", "+1.abc", "+abc.abd", "+10", "+9"]
EPOCH_FULL = ["0!", "1!", "00!", "10!"]
SEG_FULL = {"v": ["v"], "e": EPOCH_FULL, "pre": PRE_FULL, "post": POST_FULL, "dev": DEV_FULL, "loc": LOCAL_FULL}
SEG_SMALL = {
    "v": ["v"],
    "e": ["0!", "1!"],
    "pre": ["a", "a1", "b0", "rc1", "alpha1", "c", "pre.1", "preview-2"],
    "post": [".post0", "post1", "-1", "-0", ".rev"],
    "dev": [".dev0", "dev1", "-dev"],
    "loc": ["+abc", "+1", "+abc.1"],
}
ORDER = ["v", "e", "pre", "post", "dev", "loc"]

LEGACY = [
    "", " ", "v", "latest", "abc", "foo-bar", "1..0", "1.0-", "1.0+", "1.0.0.x", "1.0-beta-1-x", "v2017q1.54321",
    "v2017q2.54321", "v2017q1.54322", "2017q1", "2017Q1", "v201712.0033-beta-", "201712.0033_beta!", "1.0 beta",
    "1,0", "1.0/2", "release-1.0", "Release-1.0", "release_1.0", "1.0.final", "1.0final", "1.0-final", "final",
    "1.0~rc1", "1.0a1b2", "1.0rc1rc2", "1.0.post1.post2", "1.0.dev1.dev2", "2!", "!1", "1!", "1.0+", "+abc",
    "1.0+abc+def", "1.0+a b", "v.1", "vv1", "1.0.", ".1", "1.-0", "١.٢", "1.0é", "1.0-SNAPSHOT",
    "1.0-snapshot", "20.04-lts", "20.04-LTS", "1.0.0-alpha+001-x y", "2020.1001-alpha-x", "2020.w53", "2020w53",
    "2020.W53", "0.0.0.0.0.0.x", "x", "X", "-", "--", ".", "..", "1 .0", "1. 0",
]


def _mk(release, segs):
    s = release
    pre = ""
    for k in ORDER:
        if k in segs:
            if k == "v":
                pre = "v" + pre
            elif k == "e":
                s = segs[k] + s
            else:
                s = s + segs[k]
    return pre + s


def strings(tier, seed):
    out = []
    # A: every release x at most one optional segment (full option lists)
    for r in RELEASES:
        out.append(r)
        for k in ORDER:
            for o in SEG_FULL[k]:
                out.append(_mk(r, {k: o}))
    # B: releases x subsets of 2..k optional segments (reduced option lists)
    kmax = 4 if tier == "quick" else 6
    rels = ("1.0", "1.1") if tier == "quick" else ("1.0", "1.1", "01.2")
    for size in range(2, kmax + 1):
        for subset in itertools.combinations(ORDER, size):
            for combo in itertools.product(*[SEG_SMALL[k] for k in subset]):
                for r in rels:
                    out.append(_mk(r, dict(zip(subset, combo))))
    if tier != "quick":
        # B2: every pair of optional segments with the full option lists
        for subset in itertools.combinations(ORDER, 2):
            for combo in itertools.product(*[SEG_FULL[k] for k in subset]):
                out.append(_mk("1.0", dict(zip(subset, combo))))
    # C: case and blank variants
    base = ["1.0a1", "1.0.post1", "1.0.dev1", "v1.0rc1", "1!1.0", "1.0+abc.1", "1.0-ALPHA1", "1.0beta", "2020.1001-alpha"]
    for s in base:
        out += [s.upper(), " " + s, s + " ", "\t" + s + "\n", s.capitalize()]
    # D: numbers around and beyond the machine word (2**63-1, 2**63, 2**64, 30 digits) in every numeric position
    BIG = ["9223372036854775806", "9223372036854775807", "9223372036854775808", "18446744073709551616", "123456789012345678901234567890"]
    for n in BIG:
        out += [f"1.0.dev{n}", f"1.0a1.dev{n}", f"1.0rc1.dev{n}", f"1.0.post1.dev{n}", f"1.0.post{n}", f"1.0a{n}", f"1.0rc{n}", f"{n}.0", f"1.{n}", f"{n}!1.0",
                f"1.0+{n}", f"1.0a1.post{n}", f"1.0.post{n}.dev1"]
    out += ["1.0a1", "1.0rc1", "1.0.post1", "1.0", "1.0a1.post1", "1.0.post1.dev1"]
    out += LEGACY
    seen, uniq = set(), []
    for s in out:
        if s not in seen:
            seen.add(s)
            uniq.append(s)
    return uniq


def bounds(tier, seed):
    ss = strings(tier, seed)
    return {"strings": len(ss), "ordered_pairs": len(ss) ** 2, "max_optional_segments": 4 if tier == "quick" else 6}


_CTX = {}


def _prepare(tier, seed):
    key = (tier, seed)
    if _CTX.get("key") == key:
        return _CTX
    ss = strings(tier, seed)
    keys = [bvversion.parse_version(s) for s in ss]
    ref = []
    for s in ss:
        try:
            ref.append(pv.Version(s))
        except pv.InvalidVersion:
            ref.append(None)
    # impl ranks from its own sort
    sort_error = None
    try:
        order = sorted(range(len(ss)), key=lambda i: keys[i])
    except Exception as ex:  # a comparison that raises: reported as a violation, ranks fall back to the reference
        sort_error = f"{type(ex).__name__}: {ex}"
        order = list(range(len(ss)))
    rank = [0] * len(ss)
    r = 0
    for n, i in enumerate(order):
        if n > 0 and sort_error is None and keys[order[n - 1]] < keys[i]:
            r += 1
        rank[i] = r
    # reference ranks among PEP 440-valid strings
    valid = [i for i in range(len(ss)) if ref[i] is not None]
    vorder = sorted(valid, key=lambda i: ref[i])
    rrank = {}
    r = 0
    for n, i in enumerate(vorder):
        if n > 0 and ref[vorder[n - 1]] < ref[i]:
            r += 1
        rrank[i] = r
    _CTX.update(key=key, ss=ss, keys=keys, ref=ref, rank=rank, rrank=rrank, order=order, sort_error=sort_error)
    return _CTX


def explore(tier, seed):
    c = _prepare(tier, seed)
    n = len(c["ss"])
    rows = list(range(n))
    chunks = [("unary", tier, seed)] + [("rows", tier, seed, ch) for ch in pool.split(rows, pool.NPROC * 4)]
    chunks.append(("callsites", tier, seed))
    return pool.run_chunks(run_chunk, chunks)


# versions of the pattern MAJOR.MINOR.PATCH[PYTAGNUM] whose text order differs from their PEP 440 order in many pairs
CALLSITE_VERSIONS = ["0.1.9", "0.1.10", "0.2.0", "0.10.0", "1.0.0a2", "1.0.0a10", "1.0.0b1", "1.0.0rc1", "1.0.0", "1.0.0post1", "1.0.1", "9.0.0", "10.0.0"]


def callsites(st):
    """The two places where the CLI uses the comparison - newest of (config value, tag) in `show`, and the gate of `update` - for every
    ordered pair of a small version set, against packaging."""
    import os

    from .. import fakevcs, world

    d = pool.fresh_dir("c16")
    os.chdir(d)
    V = CALLSITE_VERSIONS
    for a in V:
        for b in V:
            if a == b:
                continue
            world.clear_dir(".")
            world.write_tree({"bumpver.toml": f'[bumpver]\ncurrent_version = "{a}"\nversion_pattern = "MAJOR.MINOR.PATCH[PYTAGNUM]"\n'.encode()})
            os.mkdir(".git")
            fakevcs.install(fakevcs.FakeVCS("git", tags_all=[b], tags_merged=[b], status=[]))
            try:
                o = world.cli("show", "--no-fetch")
            finally:
                fakevcs.uninstall()
            st.evaluations += 1
            shown = [l[len("Current Version: "):] for l in o.stdout.splitlines() if l.startswith("Current Version: ")]
            want = a if pv.Version(a) >= pv.Version(b) else b
            st.observe(("show", a, b, o.exit, shown))
            st.nontriv("callsite", a, b)
            if o.exit != 0 or shown != [want]:
                st.violation("C16:call-site:newest-of-config-and-tag", [a, b], {"shown": shown, "expected": want, "exit": o.exit})
            else:
                st.outcomes["call-site:newest-of-config-and-tag"] += 1
            # the gate: --set-version b from a is accepted exactly when b > a
            world.clear_dir(".")
            world.write_tree({"bumpver.toml": f'[bumpver]\ncurrent_version = "{a}"\nversion_pattern = "MAJOR.MINOR.PATCH[PYTAGNUM]"\n'.encode()})
            o2 = world.cli("update", "--dry", "--no-fetch", "--set-version", b)
            st.evaluations += 1
            st.observe(("gate", a, b, o2.exit))
            if (o2.exit == 0) != (pv.Version(b) > pv.Version(a)):
                st.violation("C16:call-site:gate", [a, b], {"exit": o2.exit, "expected_accept": pv.Version(b) > pv.Version(a), "log": o2.log[-2:]})
            else:
                st.outcomes["call-site:gate"] += 1
    os.chdir("/")


def _sig_class(s, ref):
    if ref is None:
        return "legacy"
    v = ref
    parts = []
    if v.epoch:
        parts.append("epoch")
    if v.pre:
        parts.append("pre")
    if v.post is not None:
        parts.append("post")
    if v.dev is not None:
        parts.append("dev")
    if v.local:
        parts.append("local")
    return "+".join(parts) or "release"


def run_chunk(chunk):
    st = Stats()
    if chunk[0] == "callsites":
        callsites(st)
        return st
    c = _prepare(chunk[1], chunk[2])
    ss, keys, ref, rank, rrank = c["ss"], c["keys"], c["ref"], c["rank"], c["rrank"]
    if c["sort_error"]:
        st.outcomes["sort-raised"] += 1
        if chunk[0] == "unary":
            st.violation("C16:comparison-raises-in-sort", [], {"error": c["sort_error"]})
        else:
            _rows_safe(st, c, chunk[3])
        return st
    if chunk[0] == "unary":
        impl_mod = type(keys[0]).__module__
        for i, s in enumerate(ss):
            st.evaluations += 1
            k = keys[i]
            is_pep = type(k).__name__ == "Version"
            cls = _sig_class(s, ref[i])
            st.outcomes[("pep440:" if ref[i] is not None else "") + cls] += 1
            st.nontriv(s)
            if is_pep != (ref[i] is not None):
                st.violation(f"C16:validity-disagrees:{cls}", [s], {"impl_pep440": is_pep, "reference_pep440": ref[i] is not None})
            elif ref[i] is not None and str(k) != str(ref[i]):
                st.violation(f"C16:canonical-text:{cls}", [s], {"impl": str(k), "reference": str(ref[i])})
            if ref[i] is not None and bvversion.to_pep440(s) != str(ref[i]):
                st.violation(f"C16:to_pep440:{cls}", [s], {"impl": bvversion.to_pep440(s), "reference": str(ref[i])})
            if not (k == k) or (k != k) or (k < k) or (k > k) or not (k <= k) or not (k >= k):
                st.violation(f"C16:reflexivity:{cls}", [s], {})
            st.observe((s, str(k), is_pep))
        # sort / max as used by bumpver (newest tag = first of sort(key=parse_version, reverse=True))
        by_sort = sorted(ss, key=bvversion.parse_version, reverse=True)
        top = max(rank)
        idx = {s: i for i, s in enumerate(ss)}
        if rank[idx[by_sort[0]]] != top or rank[idx[max(ss, key=bvversion.parse_version)]] != top:
            st.violation("C16:sort-max-disagree-with-order", [by_sort[0]], {})
        ranks_sorted = [rank[idx[s]] for s in by_sort]
        if any(a < b for a, b in zip(ranks_sorted, ranks_sorted[1:])):
            st.violation("C16:reverse-sort-not-descending", [], {})
        st.sample({"strings": ss[:5] + ss[-3:], "impl_module": impl_mod})
        st.sample({"canonical": [[s, str(keys[idx[s]])] for s in ("v1.0-ALPHA1", "01.2", "1.0-1", "1!1.0.rev") if s in idx]})
        return st
    rows = chunk[3]
    n = len(ss)
    for i in rows:
        a, ra = keys[i], rank[i]
        va = rrank.get(i)
        for j in range(n):
            b, rb = keys[j], rank[j]
            lt, le, eq, ne, ge, gt = a < b, a <= b, a == b, a != b, a >= b, a > b
            st.evaluations += 1
            if (lt, le, eq, ne, ge, gt) != (ra < rb, ra <= rb, ra == rb, ra != rb, ra >= rb, ra > rb):
                st.violation(
                    f"C16:order-laws:{_sig_class(ss[i], ref[i])}-vs-{_sig_class(ss[j], ref[j])}",
                    [ss[i], ss[j]],
                    {"ops(lt,le,eq,ne,ge,gt)": [lt, le, eq, ne, ge, gt], "ranks": [ra, rb]},
                )
            if eq and hash(a) != hash(b):
                st.violation("C16:equal-but-different-hash", [ss[i], ss[j]], {})
            vb = rrank.get(j)
            if va is not None and vb is not None:
                if (lt, eq, gt) != (va < vb, va == vb, va > vb):
                    st.violation(
                        f"C16:pep440-order:{_sig_class(ss[i], ref[i])}-vs-{_sig_class(ss[j], ref[j])}",
                        [ss[i], ss[j]],
                        {"impl(lt,eq,gt)": [lt, eq, gt], "reference(lt,eq,gt)": [va < vb, va == vb, va > vb]},
                    )
            elif va is None and vb is not None:
                if not lt:
                    st.violation("C16:legacy-not-below-pep440", [ss[i], ss[j]], {"lt": lt})
        st.observe((i, ra))
    st.validated = st.evaluations
    return st


def _rows_safe(st, c, rows):
    """Fallback when sorting raised: find the pairs whose comparison raises or disagrees with the reference."""
    ss, keys, ref, rrank = c["ss"], c["keys"], c["ref"], c["rrank"]
    for i in rows:
        for j in range(len(ss)):
            st.evaluations += 1
            try:
                ops = (keys[i] < keys[j], keys[i] == keys[j], keys[i] > keys[j])
            except Exception as ex:
                st.violation(
                    f"C16:comparison-raises:{_sig_class(ss[i], ref[i])}-vs-{_sig_class(ss[j], ref[j])}",
                    [ss[i], ss[j]], {"error": f"{type(ex).__name__}: {ex}"})
                continue
            va, vb = rrank.get(i), rrank.get(j)
            if va is not None and vb is not None and ops != (va < vb, va == vb, va > vb):
                st.violation(f"C16:pep440-order:{_sig_class(ss[i], ref[i])}-vs-{_sig_class(ss[j], ref[j])}", [ss[i], ss[j]], {"impl": ops})
            elif va is None and vb is not None and not ops[0]:
                st.violation("C16:legacy-not-below-pep440", [ss[i], ss[j]], {"impl": ops})


def replay(case, st):
    if len(case) == 2 and all(x in CALLSITE_VERSIONS for x in case):
        callsites(st)
    if len(case) == 1:
        s = case[0]
        k = bvversion.parse_version(s)
        try:
            r = pv.Version(s)
        except pv.InvalidVersion:
            r = None
        is_pep = type(k).__name__ == "Version"
        if is_pep != (r is not None):
            st.violation("C16:validity-disagrees", case, {"impl_pep440": is_pep})
        elif r is not None and str(k) != str(r):
            st.violation("C16:canonical-text", case, {"impl": str(k), "reference": str(r)})
        return
    if len(case) < 2:
        return
    a, b = bvversion.parse_version(case[0]), bvversion.parse_version(case[1])
    try:
        ops = (a < b, a == b, a > b)
    except Exception as ex:
        st.violation("C16:comparison-raises", case, {"error": repr(ex)})
        return
    try:
        ra, rb = pv.Version(case[0]), pv.Version(case[1])
        if ops != (ra < rb, ra == rb, ra > rb):
            st.violation("C16:pep440-order", case, {"impl": ops})
    except pv.InvalidVersion:
        pass
    if sum(ops) != 1 or (a <= b) != (ops[0] or ops[1]) or (a >= b) != (ops[2] or ops[1]) or (a != b) == ops[1]:
        st.violation("C16:order-laws", case, {"impl": ops})
    # transitivity/rank disagreements need the whole set: re-run the exploration for those
