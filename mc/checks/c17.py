"""C17 - BUILD numbers grow numerically and lexically forever.

Deterministic transition system: state = BUILD string, transition = one real bump through the
`bumpver test` command body.  Every start id of 1..5 (quick) / 1..7 (thorough) digits, zero padded ones
included, one step each; complete chains from fixed starts crossing every digit-length expansion.
"""
import datetime as dt
import re

from .. import pool, world
from ..stats import Stats

ID = "C17"
LEVEL = "model_checking"
MIN_OUTCOMES = 3
MANIFEST = {
    'text': "All BUILD ids of 1..5 digits (quick) / 1..7 digits (thorough) including zero-padded ones take one real bump each (edge invariant over every state of a digit class is inductive for chains inside the class); every 37th id also under five flag sets (--pin-increments/--pin-date/--tag/date changes); complete chains of 2,000 / 10,000 bumps from 40 starts confirm the digit-length crossings; `update` chains behind a stale VCS tag (one project with `.git` as a file, number-like versions in TOML and unquoted setup.cfg, chains through ids ending in 00) one step from behind a NEWER tag, a project that reaches its config through `*.toml`, a README with the two bare patterns `init` writes, and configs (pyproject.toml, setup.cfg) whose bumpver section comes after other tools' look-alike sections with a current_version of their own; BUILD alone, BLD, and BUILD inside vYYYY0M.BUILD[-TAG] are driven through the real command bodies.",
    'note': 'ids longer than 7 digits are not enumerated; all-9 ids are the documented maximum and only required to be refused',
    'technique': 'explicit-state exploration of the deterministic BUILD successor system on the real code, all states of a digit class + full chains',
}
RULE = (
    "one case = one start id (every digit string of the stated lengths) or one chain step; distinct = distinct "
    "(pattern, id); non-trivial = the bump succeeded and all edge invariants were evaluated"
)
ASSUMPTIONS = [
    "string order is Python str comparison (code point order), as for any tool that sorts version strings as text",
    "date pinned (--pin-date style: version.TODAY fixed) so that only BUILD moves",
]
TODAY = dt.date(2020, 6, 15)

CHAIN_STARTS = [
    "0", "1", "9", "10", "99", "100", "998", "0001", "0998", "0999", "1000", "1001", "1998", "1999", "8998",
    "9998", "00001", "00999", "01000", "01998", "08999", "09998", "18998", "22000", "89998", "98999",
    "000999", "001000", "019998", "099998", "110000", "198999", "899998", "0000001", "0001000", "0999998",
    "1100000", "1989999", "8999998", "00000999",
]


def bounds(tier, seed):
    nd = 5 if tier == "quick" else 7
    return {
        "start_ids": f"every digit string of length 1..{nd}",
        "patterns": ["BUILD", "BLD (ids without leading zero)", "vYYYY0M.BUILD[-TAG] (4..5 digit ids)"],
        "flag_sets_on_every_37th_id_of_3..5_digits": sorted(FLAGSETS),
        "chains": {"starts": len(CHAIN_STARTS), "length": 2000 if tier == "quick" else 10000},
    }


def explore(tier, seed):
    nd = 5 if tier == "quick" else 7
    chunks = []
    for n in range(1, nd + 1):
        total = 10 ** n
        step = max(1000, total // 64)
        for lo in range(0, total, step):
            chunks.append(("edges", n, lo, min(total, lo + step)))
    clen = 2000 if tier == "quick" else 10000
    for s in CHAIN_STARTS:
        chunks.append(("chain", s, clen))
    # (1098, 1997, 0098, 10998: chains that pass through ids ending in 00 and through a digit-length expansion)
    for s in ("0042", "0998", "777", "0001", "1001", "7", "09998", "1098", "1997", "0098", "98", "10998", "8997"):
        chunks.append(("update-chain", s, 6))
    chunks.sort(key=lambda c: (c[0] != "edges", 0))  # stable: edges first
    return pool.run_chunks(run_chunk, chunks)


# flag sets under which a bump announces a new version; BUILD must step under every one of them
FLAGSETS = {
    "default": dict(date="2020-06-15"),
    "pin-increments+tag": dict(date="2020-06-15", pin_increments=True, tag="rc"),
    "pin-date+tag": dict(pin_date=True, tag="rc"),
    "later-date": dict(date="2021-01-01"),
    "pin-increments+later-date": dict(date="2021-02-01", pin_increments=True),
    "earlier-date+tag-final": dict(date="2019-01-01", tag="final"),
}


def bump(pattern, old, flags="default"):
    return world.callback("test", old_version=old, pattern=pattern, **FLAGSETS[flags])


def check_edge(st, pattern, prefix, old, generated, case, flags="default"):
    """One real transition old -> new, all invariants.  Returns new id or None."""
    o = bump(pattern, prefix + old, flags)  # (old may carry a -TAG suffix for the flag runs)
    st.evaluations += 1
    st.transitions += 1
    st.validated += 1
    tagged = old
    old = old.split("-")[0]
    all9 = set(old) == {"9"}

    def bad(sig, **d):
        st.violation(f"C17:{sig}", case, dict(d, pattern=pattern, old=old, exit=o.exit, crashed=o.crashed, out=o.stdout))

    if o.exit != 0:
        if all9:
            st.outcomes["refused:all-9 (documented maximum)"] += 1
        elif pattern == "BLD" and int(old) < 1 :
            st.outcomes["refused:invalid-for-BLD"] += 1
        else:
            bad("refused-below-maximum:" + _cls(old))
        return None
    newv = o.new_version
    if newv is None:
        bad("no-announced-version")
        return None
    if flags != "default":
        m = re.match(r"v\d{6}\.(\d+)(?:-\w+)?$", newv)
        new = m.group(1) if m else ""
    else:
        if not newv.startswith(prefix):
            bad("no-announced-version")
            return None
        new = newv[len(prefix):]
    if not new.isdigit():
        bad("non-numeric-successor", new=new)
        return None
    if all9:
        # beyond the documented maximum nothing is promised, but an accepted bump must still grow
        st.outcomes["accepted:all-9"] += 1
    if int(new) <= int(old):
        bad("not-greater-as-integer:" + _cls(old), new=new)
    lexical_required = generated or len(old) >= 4
    if lexical_required and not (new > old):
        bad("not-greater-as-string:" + _cls(old), new=new)
    if int(old) >= 1000 and len(new) < len(old):
        bad("leading-zeros-lost:" + _cls(old), new=new)
    kind = "expand" if len(new) > len(old) else ("pad" if int(old) < 1000 else "step")
    st.outcomes[f"{pattern}:{kind}" + ("" if flags == "default" else ":flags")] += 1
    return new


def _cls(old):
    z = "zero-padded" if old.startswith("0") and len(old) > 1 else "plain"
    return f"{len(old)}-digit-{z}-{'below1000' if int(old) < 1000 else 'ge1000'}"


def run_chunk(chunk):
    world.set_today(TODAY)
    st = Stats()
    if chunk[0] == "edges":
        _k, n, lo, hi = chunk
        for i in range(lo, hi):
            old = f"{i:0{n}d}"
            new = check_edge(st, "BUILD", "", old, False, ["BUILD", old])
            st.observe((old, new))
            if not old.startswith("0"):
                new2 = check_edge(st, "BLD", "", old, False, ["BLD", old])
                st.observe(new2)
                st.states_by_construction += 1
            if n in (4, 5) and i % 7 == 0:
                new3 = check_edge(st, "vYYYY0M.BUILD[-TAG]", "v202006.", old, False, ["vYYYY0M.BUILD[-TAG]", old])
                st.observe(new3)
                st.states_by_construction += 1
            if n in (3, 4, 5) and i % 37 == 0:
                for fl in FLAGSETS:
                    if fl != "default":
                        new4 = check_edge(st, "vYYYY0M.BUILD[-TAG]", "v202006.", old + "-beta", False,
                                          ["vYYYY0M.BUILD[-TAG]", old + "-beta", fl], fl)
                        st.observe(new4)
            st.states_by_construction += 1
        if lo == 0:
            st.sample({"pattern": "BUILD", "edges": f"{lo:0{n}d}..{hi - 1:0{n}d}", "last": [old, new]})
    elif chunk[0] == "update-chain":
        update_chain(st, chunk[1], chunk[2])
    else:
        _k, start, clen = chunk
        cur, generated, lens = start, False, {len(start)}
        for k in range(clen):
            new = check_edge(st, "BUILD", "", cur, generated, ["chain", start, k, cur])
            st.state("chain", cur)
            if new is None:
                st.counters["chains_ended_at_maximum"] += 1
                break
            generated = True
            lens.add(len(new))
            cur = new
        st.observe((start, cur))
        st.counters[f"chain_digit_lengths_crossed_{len(lens) - 1}"] += 1
        if start in ("0999", "1998"):
            st.sample({"chain_start": start, "steps": k + 1, "end": cur, "digit_lengths": sorted(lens)})
    return st


def readme_text(version, prefix):
    pep = version[1:] if prefix.startswith("v") else version
    pep = pep.split(".")[0] + "." + str(int(pep.split(".")[1]))  # (PEP 440 drops leading zeros of the BUILD number)
    return f"# demo\n[![badge {version}](https://example.invalid/{version}.svg)]\n\n    pip install demo=={pep}\n\nsee {version}.\n"


def update_chain(st, start, n):
    """Successive `update` runs in a project under (fake) git whose only tag is the START version - bumps that are not
    tagged (tag = false) leave the tag list behind the config; BUILD must keep growing from the config value."""
    import os

    from .. import fakevcs, pool

    d = pool.fresh_dir("c17u")
    os.chdir(d)
    # (YYYY.BUILD: a version that reads like a decimal number; once in bumpver.toml, once unquoted in setup.cfg)
    # (toml-glob: the config file is named in file_patterns only through `*.toml`, for another line; current_version relies on the implicit entry)
    for pattern, prefix, fmt in (("vYYYY.BUILD", "v2020.", "toml"), ("YYYY.BLD", "2020.", "toml"), ("YYYY.BUILD", "2020.", "toml"), ("YYYY.BUILD", "2020.", "ini"),
                                 ("vYYYY.BUILD", "v2020.", "toml-glob"), ("vYYYY.BUILD", "v2020.", "toml-readme"),
                                 ("YYYY.BUILD", "2020.", "pyproject-neighbours"), ("vYYYY.BUILD", "v2020.", "ini-neighbours")):
        if pattern == "YYYY.BLD" and (start.startswith("0") and len(start) > 1):
            continue
        cur = prefix + start
        world.clear_dir(".")
        if fmt == "toml-readme":
            # README.md with the two bare patterns `bumpver init` writes; one line names the version twice (badge + link), the PEP 440
            # form of a v-prefixed version occurs INSIDE the version text (the overlap rule must keep the two apart)
            cfg = (f'[bumpver]\ncurrent_version = "{cur}"\nversion_pattern = "{pattern}"\ncommit = false\n\n[bumpver.file_patterns]\n'
                   '"README.md" = ["{version}", "{pep440_version}"]\n')
            world.write_tree({"bumpver.toml": cfg.encode(), "README.md": readme_text(cur, prefix).encode()})
            pattern = pattern + " (README with bare patterns)"
        elif fmt == "toml-glob":
            cfg = (f'release = "{cur}"\n\n[bumpver]\ncurrent_version = "{cur}"\nversion_pattern = "{pattern}"\ncommit = false\n\n[bumpver.file_patterns]\n'
                   '"*.toml" = [\'^release = "{version}"\']\n"a.txt" = ["ver={version};"]\n')
            world.write_tree({"bumpver.toml": cfg.encode(), "a.txt": f"ver={cur};\n".encode()})
            pattern = pattern + " (config by glob)"
        elif fmt == "pyproject-neighbours":
            # other tools' tables with look-alike names and a current_version of their own come BEFORE bumpver's; the config file is not
            # listed in file_patterns (the implicit entry finds the line to rewrite)
            cfg = ('[tool.bumpversion]\ncurrent_version = "0.9.1"\ncommit = true\n\n[tool.bumpver-extras]\ncurrent_version = "0.9.2"\n\n'
                   f'[tool.bumpver]\ncurrent_version = "{cur}"\nversion_pattern = "{pattern}"\ncommit = false\n\n[tool.bumpver.file_patterns]\n"a.txt" = ["ver={{version}};"]\n')
            world.write_tree({"pyproject.toml": cfg.encode(), "a.txt": f"ver={cur};\n".encode()})
            pattern = pattern + " (pyproject.toml after look-alike tables)"
        elif fmt == "ini-neighbours":
            cfg = ('[bumpversion]\ncurrent_version = 0.9.1\ncommit = True\n\n[bumpversion:file:setup.py]\n\n'
                   f'[bumpver]\ncurrent_version = {cur}\nversion_pattern = {pattern}\ncommit = False\n\n[bumpver:file_patterns]\na.txt =\n    ver={{version}};\n')
            world.write_tree({"setup.cfg": cfg.encode(), "a.txt": f"ver={cur};\n".encode()})
            pattern = pattern + " (setup.cfg after a look-alike section)"
        elif fmt == "toml":
            cfg = f'[bumpver]\ncurrent_version = "{cur}"\nversion_pattern = "{pattern}"\ncommit = false\n\n[bumpver.file_patterns]\n"a.txt" = ["ver={{version}};"]\n'
            world.write_tree({"bumpver.toml": cfg.encode(), "a.txt": f"ver={cur};\n".encode()})
        else:
            cfg = f'[bumpver]\ncurrent_version = {cur}\nversion_pattern = {pattern}\ncommit = False\n\n[bumpver:file_patterns]\na.txt =\n    ver={{version}};\n'
            world.write_tree({"setup.cfg": cfg.encode(), "a.txt": f"ver={cur};\n".encode()})
            pattern = pattern + " (setup.cfg)"
        world.mark_repo("git", as_file=(pattern == "YYYY.BUILD"))  # (one of the four projects is a linked work tree: `.git` is a file)
        for i in range(n):
            fake = fakevcs.install(fakevcs.FakeVCS("git", tags_all=[prefix + start], tags_merged=[prefix + start], status=[]))
            try:
                o = world.cli("update", "--no-fetch", "--date", "2020-06-15")
            finally:
                fakevcs.uninstall()
            st.evaluations += 1
            st.transitions += 1
            st.validated += 1
            case = ["update-chain", pattern, start, i, cur]
            st.observe((pattern, start, i, o.exit, o.new_version))
            if o.exit != 0 or o.new_version is None:
                st.outcomes["violation"] += 1
                st.violation("C17:update-chain-stuck-behind-a-stale-tag:" + _cls(start), case, {"exit": o.exit, "log": o.log[-3:], "old_version_line": o.old_version})
                break
            old_b, new_b = cur[len(prefix):], o.new_version[len(prefix):]
            if not new_b.isdigit() or int(new_b) <= int(old_b):
                st.outcomes["violation"] += 1
                st.violation("C17:update-chain-build-not-increasing:" + _cls(start), case, {"announced": o.new_version, "previous": cur, "old_version_line": o.old_version})
                break
            if fmt == "toml-readme":
                got = world.read_tree(".")["README.md"].decode("utf-8", "replace")
                if got != readme_text(o.new_version, prefix):
                    st.outcomes["violation"] += 1
                    st.violation("C17:update-chain-file-shows-another-build:" + _cls(start), case, {"announced": o.new_version, "README.md": got, "expected": readme_text(o.new_version, prefix)})
                    break
            st.state("update-chain", pattern, o.new_version)
            st.outcomes["update-chain:step"] += 1
            cur = o.new_version
        # the work tree is BEHIND the newest tag (another work tree released further): the next BUILD must exceed the tag's
        ahead, first = cur, prefix + start
        if ahead != first and fmt == "toml":
            world.write_tree({"bumpver.toml": cfg.encode(), "a.txt": f"ver={first};\n".encode()})
            fake = fakevcs.install(fakevcs.FakeVCS("git", tags_all=[first, ahead], tags_merged=[first, ahead], status=[]))
            try:
                o = world.cli("update", "--no-fetch", "--date", "2020-06-15")
            finally:
                fakevcs.uninstall()
            st.evaluations += 1
            st.transitions += 1
            st.validated += 1
            case = ["update-chain", pattern, start, n, ahead]
            st.observe((pattern, start, "behind-tag", o.exit, o.new_version))
            nb = (o.new_version or "")[len(prefix):]
            if o.exit != 0 or not nb.isdigit() or int(nb) <= int(ahead[len(prefix):]):
                st.outcomes["violation"] += 1
                st.violation("C17:update-behind-the-newest-tag-build-not-increasing:" + _cls(start), case,
                             {"announced": o.new_version, "newest_tag": ahead, "config": first, "exit": o.exit, "log": o.log[-3:]})
            else:
                st.outcomes["update-chain:step-from-behind-a-tag"] += 1
    os.chdir("/")


def replay(case, st):
    world.set_today(TODAY)
    if case[0] == "update-chain":
        update_chain(st, case[2], case[3] + 2)
        return
    if case[0] == "chain":
        check_edge(st, "BUILD", "", case[3], case[2] > 0, case)
    else:
        prefix = "v202006." if case[0].startswith("v") else ""
        check_edge(st, case[0], prefix, case[1], False, case, case[2] if len(case) > 2 else "default")
