"""C05 - bump semantics follow the documented part rules.

Transition system: state = (pattern, version), event = all 2^5 boolean flags x 7 tag choices x 7 date
kinds (pin, same day, +1 day, first of next month, 1 Jan next year, -1 day, -400 days); the transition
function is the real `bumpver test` command body.  Oracle: functional equality with the reference
bump rules (mc/ref/model.py), including when "no version" must be the answer.
"""
from .. import bumpgraph as bg
from .. import grammar, pool, world
from ..ref import model as M
from ..stats import Stats

ID = "C05"
LEVEL = "model_checking"
MIN_OUTCOMES = 4
MANIFEST = {
    'text': "Explicit-state exploration of the bump transition system on the real `test` command body: for every pattern of the stated grammar subset and every seed state, ALL flag combinations x tag choices x date kinds are executed and the announced version (or the refusal) must equal what the reference model of the README rules computes; on the README patterns the same events also run through `update --dry` (argv parsing, config loading, the update command's own wiring of the flags) and must announce the same version, dated events under three non-UTC process time zones in turn; successors are expanded (depth 2) on a core subset so non-initial states are covered. Because the generated grammar always ends with its tag block, nine further patterns put counters, PATCH, MINOR.PATCH and BUILD to the RIGHT of TAG/PYTAG (a tag may change to a name that sorts before the old one), in both tiers.",
    'note': 'reference model mc/ref/model.py transcribed from README; values outside the alphabets and patterns outside the grammar subset are not covered; `--tag final --tag-num` is treated as unspecified',
    'technique': 'explicit-state model checking of the implementation against a reference model (all events from every explored state)',
}
RULE = (
    "state = (pattern, version text); transition = one execution of the real `bumpver test` body for one event; "
    "distinct non-trivial = distinct (pattern, state) from which at least one event produced a new version"
)
ASSUMPTIONS = [
    "reference model of the README rules (mc/ref/model.py) is the oracle; it never imports bumpver",
    "order for non-PEP 440 version strings is bumpver's own key (validated separately by C16)",
]


# the generated grammar always ends with the tag block, so the only part ever to the right of TAG/PYTAG there is NUM: these
# put counters, PATCH and a build number to the right of a tag (a tag may change to one that sorts BEFORE it: rc -> final, dev -> beta)
RIGHT_OF_TAG = [
    "MAJOR.MINOR.PATCH[-TAG.INC0]", "MAJOR.MINOR[PYTAG.INC1]", "YYYY.MM[-TAG.INC0]", "MAJOR.MINOR.PATCH-TAG.INC1",
    "vMAJOR.MINOR-TAG.PATCH", "YYYY.MM-TAG.BUILD", "MAJOR-TAG.MINOR.PATCH", "YYYY0M[-TAG.PATCH]", "MAJOR.MINOR[.PATCH][-TAG[.INC0]]",
]


def right_of_tag():
    out = []
    for text in RIGHT_OF_TAG:
        tree = M.parse_pattern(text)
        assert grammar.well_formed(tree) is None, (text, grammar.well_formed(tree))
        out.append(grammar.Pat(tree))
    return out


def pattern_set(tier, seed):
    if tier == "thorough":
        pats, flt = grammar.generate("star")
        return pats + [p for p in right_of_tag() if p.text not in {q.text for q in pats}], flt
    core, flt = grammar.generate("core", prefixes=("",))
    readme = core[: len(grammar.README_PATTERNS)]
    rest = core[len(grammar.README_PATTERNS) :]
    star, _ = grammar.generate("star")
    extra = [p for p in star if p.text not in {q.text for q in core}]
    nsl = 80
    pats = readme + rest[::18] + extra[seed % nsl :: nsl]
    pats += [p for p in right_of_tag() if p.text not in {q.text for q in pats}]
    return pats, flt


def bounds(tier, seed):
    pats, flt = pattern_set(tier, seed)
    return {
        "patterns": len(pats),
        "pattern_examples": [p.text for p in pats[:: max(1, len(pats) // 12)]],
        "filtered_out_of_grammar": dict(flt),
        "events_per_state_with_calendar": len(bg.event_space(True)),
        "events_per_state_without_calendar": len(bg.event_space(False)),
        "seed_level": 1,
        "successor_depth": "2 on README patterns (thorough), 1 elsewhere",
        "quick_slice_of_star_set": f"{seed % 80} of 80" if tier == "quick" else "all",
    }


def explore(tier, seed):
    pats, _flt = pattern_set(tier, seed)
    nreadme = len(grammar.README_PATTERNS)
    chunks = []
    for i, p in enumerate(pats):
        depth = 2 if (tier == "thorough" and i < nreadme) else 1
        chunks.append((p.text, depth))
    # big chunks first would be nicer for load balance; order must stay deterministic
    return pool.run_chunks(run_chunk, chunks)


def run_chunk(chunk):
    text, depth = chunk
    st = Stats()
    pat = grammar.Pat(M.parse_pattern(text))
    world.set_today(bg.FAR_TODAY)
    has_cal = any(f in M.CAL_FIELDS for f in pat.fields)
    events = bg.event_space(has_cal)
    frontier = [(s, 1) for s in grammar.seeds(pat)]
    seen = set()
    while frontier:
        state, d = frontier.pop(0)
        old_text = M.render(pat.tree, state)
        if old_text in seen:
            continue
        seen.add(old_text)
        st.state(text, old_text)
        if M.recognise(pat.tree, old_text) != state:
            st.counters["seed_states_skipped_not_representable"] += 1
            continue
        base = grammar.seed_date(state)
        succ = explore_state(st, pat, state, old_text, base, events)
        if text in grammar.README_PATTERNS and len(seen) <= 3:
            update_conformance(st, pat, state, old_text, base, events)
        if d < depth:
            for ns in succ[:40]:
                frontier.append((ns, d + 1))
    return st


def explore_state(st, pat, state, old_text, base, events):
    succ, seen_succ, produced = [], set(), False
    for ev in events:
        rev = bg.ref_event(ev, base)
        exp = bg.expected(pat, state, old_text, rev)
        if exp[0] == "unspecified":
            st.counters["events_unspecified_by_readme"] += 1
            continue
        o = bg.impl_test(pat.text, old_text, rev)
        st.evaluations += 1
        st.transitions += 1
        st.validated += 1
        got = o.new_version if o.exit == 0 else None
        st.observe((old_text, ev, o.exit, got))
        judge(st, pat, state, old_text, base, rev, exp, o, got)
        if exp[0] == "ok":
            produced = True
            if exp[1] not in seen_succ:
                seen_succ.add(exp[1])
                succ.append(exp[2])
    if produced:
        st.nontriv(pat.text, old_text)
    if old_text in ("1.2.3", "2020.1001", "v202006.1001"):
        st.sample({"pattern": pat.text, "state": old_text, "events": len(events), "distinct_successors": len(succ),
                   "example": [bg.flags_key(bg.ref_event(events[37], base), base)]})
    return succ


def update_conformance(st, pat, state, old_text, base, events):
    """The same events through `update --dry` (argv parsing, config loading, the update command's own wiring of the flags): wherever
    the rules give a version, `update` must announce exactly that version."""
    import os

    d = pool.fresh_dir("c05u")
    os.chdir(d)
    world.write_tree({"bumpver.toml": f'[bumpver]\ncurrent_version = "{old_text}"\nversion_pattern = "{pat.text}"\n'.encode()})
    import time

    zones = (None, "JST-9", "PST8PDT", "NZST-12NZDT")  # the process time zone must not move a date given with --date
    for n, ev in enumerate(events):
        rev = bg.ref_event(ev, base)
        exp = bg.expected(pat, state, old_text, rev)
        if exp[0] != "ok":
            continue
        tz = zones[n % len(zones)] if rev["date"] is not None else None
        old_tz = os.environ.get("TZ")
        if tz:
            os.environ["TZ"] = tz
            time.tzset()
        try:
            o = world.cli("update", "--dry", "--no-fetch", "--ignore-vcs-tag", *bg.cli_args(rev))
        finally:
            if tz:
                if old_tz is None:
                    os.environ.pop("TZ", None)
                else:
                    os.environ["TZ"] = old_tz
                time.tzset()
        st.evaluations += 1
        st.transitions += 1
        st.validated += 1
        got = o.new_version if o.exit == 0 else None
        st.observe(("update", old_text, ev, o.exit, got))
        if got == exp[1]:
            st.outcomes["ok:update-announces-the-same-version"] += 1
            continue
        st.outcomes["violation"] += 1
        gs = M.recognise(pat.tree, got) if got else None
        diff = bg.first_diff(pat, gs, exp[2]) if gs is not None else ("refused" if got is None else "unparsable")
        st.violation(f"C05:update-differs-from-the-rules:{diff}:{bg.mode_key(rev, base)}" + (":TZ" if tz else ""),
                     {"pattern": pat.text, "old": old_text, "flags": bg.cli_args(rev), "cli": "update", "TZ": tz},
                     {"expected": exp[1], "announced": got, "exit": o.exit, "log": o.log[-2:]})
    os.chdir("/")


def judge(st, pat, state, old_text, base, rev, exp, o, got):
    case = {"pattern": pat.text, "old": old_text, "flags": bg.cli_args(rev)}
    fk = bg.mode_key(rev, base)
    if o.crashed:
        st.outcomes["crash"] += 1
        st.violation(f"C05:crash:{o.crashed.split(':')[0]}:{fk}", case, {"crashed": o.crashed})
        return
    if exp[0] == "ok":
        if got == exp[1]:
            st.outcomes["ok:new-version"] += 1
            return
        if got is None:
            st.outcomes["violation"] += 1
            st.violation(
                f"C05:refused-but-rules-give-a-version:{fk}", case,
                {"expected": exp[1], "exit": o.exit, "log": o.log[-3:]},
            )
            return
        gs = M.recognise(pat.tree, got)
        diff = bg.first_diff(pat, gs, exp[2]) if gs is not None else "unparsable"
        st.outcomes["violation"] += 1
        st.violation(f"C05:wrong-parts:{diff}:{fk}", case, {"expected": exp[1], "announced": got})
    else:
        if got is None:
            st.outcomes["ok:none:" + exp[1]] += 1
            return
        st.outcomes["violation"] += 1
        gs = M.recognise(pat.tree, got)
        diff = bg.first_diff(pat, gs, state) if gs is not None else "unparsable"
        st.violation(
            f"C05:announced-but-rules-give-none({exp[1]}):{diff}:{fk}", case, {"announced": got, "reference": exp[1]}
        )


def replay(case, st):
    import datetime as dt

    world.set_today(bg.FAR_TODAY)
    pat = grammar.Pat(M.parse_pattern(case["pattern"]))
    state = M.recognise(pat.tree, case["old"])
    base = grammar.seed_date(state)
    flags = case["flags"]
    rev = {"major": "--major" in flags, "minor": "--minor" in flags, "patch": "--patch" in flags,
           "tag": flags[flags.index("--tag") + 1] if "--tag" in flags else None, "tag_num": "--tag-num" in flags,
           "pin_increments": "--pin-increments" in flags, "pin_date": "--pin-date" in flags,
           "date": dt.date.fromisoformat(flags[flags.index("--date") + 1]) if "--date" in flags else None}
    exp = bg.expected(pat, state, case["old"], rev)
    if case.get("cli") == "update":
        update_conformance(st, pat, state, case["old"], base, [ev for ev in bg.event_space(any(f in M.CAL_FIELDS for f in pat.fields))
                                                               if bg.cli_args(bg.ref_event(ev, base)) == case["flags"]])
        return
    o = bg.impl_test(pat.text, case["old"], rev)
    st.observe((o.exit, o.new_version))
    judge(st, pat, state, case["old"], base, rev, exp, o, o.new_version if o.exit == 0 else None)
