"""C08 - any sequence of updates keeps files, config and tags in agreement.

Real git.  Operation alphabet on a consistent project (3 layouts): u (default bump), u2/u3 (other flag sets),
uf (an invocation that must fail), un (--no-commit), ut (--no-tag-commit), c (unrelated commit, also commits what
un left), b (switch between main and a side branch forked from the first commit), d / D (advance the date by a
month / a year).  (i) ALL sequences up to depth 3 (quick) / 5 (thorough), depth-first with snapshot reuse and state
merging; (ii) thorough: runs of length 12 of the default step (d, u) with at most 2 deviations at any positions.
After EVERY step the invariants of the property are evaluated, and from every reachable clean state the default
next step must succeed.
"""
import datetime as dt
import itertools
import os
import re
import shutil

import packaging.version as pv

from .. import bumpgraph as bg
from .. import gitworld as gw
from .. import pool, world
from ..stats import Stats, h64

ID = "C08"
LEVEL = "model_checking"
MIN_OUTCOMES = 4
MANIFEST = {
    'text': 'Explicit-state search over operation sequences on real temporary git repositories: every sequence of the 10-operation alphabet up to depth 3/5 (plus, thorough, length-12 runs with <= 2 deviations) is executed with the real CLI (three project layouts, one with a configured path spelled `docs/../setup.py`, one whose repository data lives outside the work tree (`.git` is a file), one that reaches its config file through `*.toml`), snapshots are reused and canonical states (work tree, index status, branch heads, tags, date) are hashed and merged; after every step config, every constructed occurrence, `show`, the newest tag and HEAD must agree as the property states, failing invocations must leave the state unchanged, and the default next update must succeed from every clean reachable state. Scripted histories add an uncommitted edit + --allow-dirty and a hand-made tag that merely begins like a version of the pattern (it must change nothing).',
    'note': 'histories longer than 5 with more than 2 deviations, remotes and merges are outside the bound',
    'technique': 'explicit-state model checking: bounded exhaustive search over operation histories with state hashing on real git + real CLI',
}
RULE = (
    "state = canonical (work tree, index status, branch heads, tag map, current branch, simulated date); transition = one operation "
    "executed for real; distinct non-trivial = distinct states reached by at least one successful update"
)
ASSUMPTIONS = ["git 2.39, repositories without remote, fixed author/committer dates so that equal histories hash equal"]

LAYOUTS = {
    "calver": dict(
        pattern="vYYYY0M.BUILD[-TAG]", start="v202001.1001-beta", date=dt.date(2020, 1, 20),
        # README.md: two different patterns on ONE line, the one configured first standing to the right
        files={"README.md": ["pep={pep440_version};", "ver={version};"], "src/__init__.py": ['__version__ = "{version}"']},
        content={"README.md": "# demo\ninstall ver=v202001.1001-beta; (pep=202001.1001b0;) today\nend\n", "src/__init__.py": '__version__ = "v202001.1001-beta"\n'},
        u=[], u2=["--tag", "rc"], u3=["--tag", "final"], fail=["--set-version", "v201901.0001"], gitfile=True, stray="v209912.9999.1",
    ),
    "semver": dict(
        pattern="MAJOR.MINOR.PATCH[-TAGNUM]", start="1.2.3", date=dt.date(2021, 6, 1),
        # setup.py is configured under a spelling that is not normalised (git and the file system resolve it to setup.py)
        files={"docs/../setup.py": ['version="{pep440_version}"'], "docs/index.md": ["release {version} of"], "docs/series.md": ["the MAJOR.MINOR series"]},
        content={"setup.py": 'setup(name="demo", version="1.2.3")\n', "docs/index.md": "This is release 1.2.3 of demo.\r\n",
                 "docs/series.md": "Documentation of the 1.2 series.\n"},
        u=["--patch"], u2=["--minor"], u3=["--tag", "rc"], fail=["--set-version", "0.0.1"], stray="9.9.9.1",
    ),
    "glob": dict(
        pattern="YYYY.MM.INC0", start="2021.6.0", date=dt.date(2021, 6, 1),
        # the config file itself is also reached by a glob entry, with an anchored pattern for a second version line in it
        files={"pkg/*.txt": ["v={version}"], "*.toml": ['^release = "{version}"']},
        cfg_head='release = "2021.6.0"\n\n', implicit_cfg_entry=True,
        content={"pkg/a.txt": "v=2021.6.0\n", "pkg/b.txt": "x\r\nv=2021.6.0\r\n", "pkg/.c.txt": "hidden\nv=2021.6.0\n"},
        u=[], u2=["--pin-date"], u3=["--date", "2030-01-01"], fail=["--set-version", "2000.1.0"], stray="2099.12.0.1",
    ),
}
OPS = ("u", "d", "u2", "u3", "uf", "un", "ut", "c", "b", "D")
# histories with an uncommitted edit of an unrelated tracked file (w) and `update --allow-dirty` (ua): not part of the BFS alphabet
SCRIPTS = [("w", "ua"), ("w", "u"), ("u", "w", "ua"), ("w", "ua", "u"), ("w", "ua", "w", "ua"), ("b", "w", "ua", "b", "u"), ("w", "un", "ua"), ("c", "w", "ua", "c", "u"),
           ("w", "ua", "d", "ua"), ("u2", "w", "ua", "u3"),
           # x: somebody tags HEAD by hand with a name that BEGINS like a version of the pattern, is valid PEP 440 and sorts above everything,
           # but is not a version of the pattern: it is no version tag, every agreement must hold as if it were not there
           ("x", "u"), ("u", "x", "u", "u2"), ("x", "b", "u", "b", "u"), ("u", "x", "d", "u", "c", "u3")]


def bounds(tier, seed):
    return {"layouts": {k: v["pattern"] for k, v in LAYOUTS.items()}, "operations": list(OPS), "depth": 3 if tier == "quick" else 5,
            "long_runs": "length 12, <= 2 deviations" if tier == "thorough" else "length 8, <= 1 deviation"}


def explore(tier, seed):
    depth = 3 if tier == "quick" else 5
    chunks = []
    for layout in LAYOUTS:
        chunks.append(("scripts", layout, SCRIPTS, 0))
        for prefix in itertools.product(OPS, repeat=2 if depth > 2 else 1):
            chunks.append(("bfs", layout, prefix, depth))
        if tier == "thorough":
            n = 12
            devs = [()] + [((i, op),) for i in range(n) for op in OPS if op not in ("u", "d")] + \
                   [((i, a), (j, b)) for i in range(n) for j in range(i + 1, n) for a in ("uf", "un", "c", "b", "u3") for b in ("uf", "un", "c", "b", "ut")]
        else:
            n = 8
            devs = [()] + [((i, op),) for i in range(n) for op in OPS if op not in ("u", "d")]
        for part in pool.split(devs, 16):
            chunks.append(("long", layout, part, n))
    return pool.run_chunks(run_chunk, chunks)


# --------------------------------------------------------------------------------------------------


def config_text(L):
    out = [L.get("cfg_head", "") + "[bumpver]", f'current_version = "{L["start"]}"', f'version_pattern = "{L["pattern"]}"', "commit = true", "tag = true", "push = false",
           "", "[bumpver.file_patterns]"] + ([] if L.get("implicit_cfg_entry") else ['"bumpver.toml" = [\'current_version = "{version}"\']'])
    for path, pats in L["files"].items():
        out.append(f'"{path}" = [' + ", ".join("'" + p + "'" for p in pats) + "]")
    return "\n".join(out) + "\n"


def make_repo(layout, d):
    L = LAYOUTS[layout]
    if os.path.exists(d):
        shutil.rmtree(d)
    os.makedirs(d)
    os.chdir(d)
    gw.init(separate=bool(L.get("gitfile")))  # (one layout keeps the repository data outside the work tree: `.git` is a file)
    files = {"bumpver.toml": config_text(L).encode(), "notes.txt": b"unrelated\n"}
    for k, v in L["content"].items():
        files[k] = v.encode()
    world.write_tree(files)
    gw.commit_all("initial")
    gw.git("tag", L["start"])
    gw.git("branch", "side")
    return L["date"]


def shown():
    o = world.cli("show", "--no-fetch")
    for line in o.stdout.splitlines():
        if line.startswith("Current Version: "):
            return line[len("Current Version: "):]
    return None


def _find(rx, text, flags=0):
    m = re.search(rx, text, flags=flags)
    return m.group(1) if m else "<damaged: " + text[:60] + ">"


def occurrences(layout):
    """(file, kind, text) for every constructed occurrence, read back from the work tree."""
    out = []
    tree = world.read_tree(".")
    if layout == "calver":
        t = tree["README.md"].decode("utf-8", "replace")
        m = re.search(r"^install ver=(.*); \(pep=(.*);\) today$", t, flags=re.M)
        out.append(("README.md", "version", m.group(1) if m else "<line damaged: " + t.split("\n")[1] + ">"))
        out.append(("README.md", "pep440", m.group(2) if m else "<line damaged>"))
        out.append(("src/__init__.py", "version", _find(r'__version__ = "(.*)"', tree["src/__init__.py"].decode("utf-8", "replace"))))
    elif layout == "semver":
        out.append(("setup.py", "pep440", _find(r'version="(.*)"\)', tree["setup.py"].decode("utf-8", "replace"))))
        out.append(("docs/index.md", "version", _find(r"release (.*) of", tree["docs/index.md"].decode("utf-8", "replace"))))
        out.append(("docs/series.md", "major.minor", _find(r"the (.*) series", tree["docs/series.md"].decode("utf-8", "replace"))))
    else:
        for f in ("pkg/a.txt", "pkg/b.txt", "pkg/.c.txt"):
            out.append((f, "version", _find(r"v=([^\r\n]*)", tree[f].decode("utf-8", "replace"))))
        out.append(("bumpver.toml", "version", _find(r'^release = "(.*)"', tree["bumpver.toml"].decode("utf-8", "replace"), flags=re.M)))
    cfg = _find(r'current_version = "(.*)"', tree["bumpver.toml"].decode("utf-8", "replace"))
    out.append(("bumpver.toml", "version", cfg))
    return out


def agree(layout, version):
    bad = []
    for f, kind, text in occurrences(layout):
        if kind == "version" and text != version:
            bad.append((f, kind, text))
        elif kind == "pep440":
            try:
                if pv.Version(text) != pv.Version(version):
                    bad.append((f, kind, text))
            except pv.InvalidVersion:
                bad.append((f, kind, text))
        elif kind == "major.minor":
            m = re.match(r"(\d+)\.(\d+)", version)
            if text != f"{m.group(1)}.{m.group(2)}":
                bad.append((f, kind, text))
    return bad


def canonical(date):
    s = gw.state()
    tree = sorted((k, h64(v)) for k, v in world.read_tree(".").items())
    return h64(s["branch"], s["branches"], s["tags"], s["status"], tree, date.isoformat())


def apply_op(st, layout, op, date, history):
    """Execute one operation in the cwd repository; evaluate the invariants; -> new date."""
    L = LAYOUTS[layout]
    world.set_today(date)
    case = {"layout": layout, "history": list(history) + [op]}

    def bad(sig, **detail):
        st.outcomes["violation"] += 1
        st.violation(f"C08:{sig}:{layout}", case, detail)

    st.transitions += 1
    if op in ("d", "D"):
        st.outcomes["op:date"] += 1
        return date + dt.timedelta(days=31 if op == "d" else 366)
    if op == "c":
        with open("notes.txt", "a") as f:
            f.write("more\n")
        gw.commit_all("unrelated work")
        st.outcomes["op:unrelated-commit"] += 1
        return date
    if op == "w":
        # the user leaves an uncommitted edit in a tracked file that is not part of the configuration
        with open("notes.txt", "a") as f:
            f.write("work in progress\n")
        st.outcomes["op:uncommitted-edit"] += 1
        return date
    if op == "x":
        gw.git("tag", L["stray"])
        st.outcomes["op:stray-tag"] += 1
        return date
    if op == "b":
        cur = gw.git("rev-parse", "--abbrev-ref", "HEAD").strip()
        r = gw.git("checkout", "-q", "side" if cur == "main" else "main", check=False)
        st.outcomes["op:switch"] += 1
        return date
    before = gw.state()
    before_tree = world.read_tree(".")
    prev = shown()
    clean = before["status"] == []
    flags = {"u": L["u"], "u2": L["u2"], "u3": L["u3"], "uf": L["fail"], "un": L["u"] + ["--no-commit"], "ut": L["u"] + ["--no-tag-commit"],
             "ua": L["u"] + ["--allow-dirty"]}[op]
    o = world.cli("update", "--no-fetch", *flags)
    st.evaluations += 1
    st.validated += 1
    after = gw.state()
    after_tree = world.read_tree(".")
    if op == "uf" and o.exit == 0:
        bad("invocation-that-must-fail-succeeded", flags=flags, announced=o.new_version)
    if o.exit != 0:
        st.outcomes[f"op:{op}:refused"] += 1
        if after != before or after_tree != before_tree:
            bad(f"failed-update-changed-state:{op}", exit=o.exit, crashed=o.crashed, status_before=before["status"], status_after=after["status"],
                changed=[k for k in set(before_tree) | set(after_tree) if before_tree.get(k) != after_tree.get(k)])
        if op == "u" and clean and not history_has_future_date(history):
            pass  # liveness of the default step is checked by expand_default()
        return date
    st.outcomes[f"op:{op}:ok"] += 1
    new = o.new_version
    if new is None:
        bad("exit-0-without-version")
        return date
    st.nontriv(canonical(date))
    wrong = agree(layout, new)
    if wrong:
        bad(f"occurrence-disagrees-with-announced-version:{wrong[0][1]}", announced=new, wrong=wrong)
    s2 = shown()
    if s2 != new:
        bad("show-disagrees-with-announced-version", announced=new, shown=s2)
    if prev is not None and not bg.greater(new, prev):
        bad("announced-version-not-greater-than-previous", announced=new, previous=prev)
    new_commits = gw.git("rev-list", f"{before['head']}..HEAD").split()
    if op == "un":
        if new_commits or after["tags"] != before["tags"]:
            bad("no-commit-run-committed-or-tagged", commits=len(new_commits))
        return date
    if len(new_commits) != 1:
        bad("not-exactly-one-new-commit", commits=len(new_commits))
    else:
        files = gw.commit_files()
        configured = set(after_tree) - {"notes.txt"}
        extra = [f for f in files if f not in configured]
        if extra:
            bad("bump-commit-contains-other-files", files=files)
    if op == "ua":
        # what the user had not committed is still uncommitted, and nothing else is pending
        if after["status"] != before["status"]:
            bad("pending-changes-differ-after-allow-dirty-update", before=before["status"], after=after["status"])
    elif after["status"]:
        bad("work-tree-not-clean-after-committing-update", status=after["status"])
    tags_now = [l.split(" ")[0] for l in after["tags"] if l.split(" ")[0] != L["stray"]]
    if op == "ut":
        if after["tags"] != before["tags"]:
            bad("no-tag-run-created-a-tag")
        return date
    new_tags = [t for t in tags_now if t not in [l.split(" ")[0] for l in before["tags"]]]  # (the hand-made stray tag is never new here)
    if new_tags != [new]:
        bad("tag-is-not-the-announced-version", new_tags=new_tags, announced=new)
    else:
        tagged = gw.git("rev-list", "-n", "1", new).strip()
        if tagged != after["head"]:
            bad("tag-not-on-the-bump-commit")
        # newest tag (reference order) denotes the announced version
        top = max(tags_now, key=lambda t: (bg.is_pep440(t), pv.Version(t) if bg.is_pep440(t) else t))
        if top != new:
            bad("newest-tag-is-not-the-announced-version", newest=top, announced=new)
    return date


def history_has_future_date(history):
    return False


def expand_default(st, layout, date, history, root, depth_tag):
    """From a clean state the default next step (d, then u) must succeed ("a further update is always possible")."""
    s = gw.state()
    if s["status"]:
        return
    snap = root + ".live"
    gw.snapshot(".", snap)
    here = os.getcwd()
    os.chdir(snap)
    try:
        L = LAYOUTS[layout]
        world.set_today(date + dt.timedelta(days=31))
        o = world.cli("update", "--no-fetch", *L["u"])
        st.evaluations += 1
        if o.exit != 0:
            st.outcomes["violation"] += 1
            st.violation(f"C08:default-next-update-impossible:{layout}", {"layout": layout, "history": list(history) + ["d", "u"]},
                         {"exit": o.exit, "crashed": o.crashed, "log": o.log[-3:]})
        else:
            st.outcomes["liveness:next-update-ok"] += 1
    finally:
        os.chdir(here)
        shutil.rmtree(snap, ignore_errors=True)
        shutil.rmtree(snap + ".gitstore", ignore_errors=True)


def run_chunk(chunk):
    st = Stats()
    base = pool.fresh_dir("c08")
    if chunk[0] == "bfs":
        _k, layout, prefix, depth = chunk
        root = os.path.join(base, "n0")
        date = make_repo(layout, root)
        hist = []
        for op in prefix:
            date = apply_op(st, layout, op, date, hist)
            hist.append(op)
            st.state(canonical(date))
        seen = {}
        dfs(st, layout, root, date, hist, depth - len(prefix), seen, base)
        if prefix == ("u", "b"):
            st.sample({"layout": layout, "prefix": list(prefix), "depth": depth, "tags": gw.state()["tags"], "occurrences": occurrences(layout)})
    elif chunk[0] == "scripts":
        _k, layout, scripts, _n = chunk
        for script in scripts:
            root = os.path.join(base, "script")
            date = make_repo(layout, root)
            hist = []
            for op in script:
                os.chdir(root)
                date = apply_op(st, layout, op, date, hist)
                hist.append(op)
                st.state(canonical(date))
            os.chdir(root)
            expand_default(st, layout, date, hist, root, "script")  # (from a clean end state a further update must be possible)
            st.observe((layout, script, gw.state()["tags"], gw.state()["status"]))
    else:
        _k, layout, devs, n = chunk
        for dev in devs:
            root = os.path.join(base, "long")
            date = make_repo(layout, root)
            seq = []
            for i in range(n):
                seq.append("d" if i % 2 == 0 else "u")
            for (i, op) in dev:
                seq[i] = op
            hist = []
            for op in seq:
                os.chdir(root)
                date = apply_op(st, layout, op, date, hist)
                hist.append(op)
                st.state(canonical(date))
            os.chdir(root)
            expand_default(st, layout, date, hist, root, "long")
            st.observe((layout, dev, gw.state()["tags"]))
    os.chdir("/")
    return st


def dfs(st, layout, node, date, hist, remaining, seen, base):
    os.chdir(node)
    key = canonical(date)
    st.state(key)
    if seen.get(key, -1) >= remaining:
        st.counters["states_merged"] += 1
        return
    seen[key] = remaining
    expand_default(st, layout, date, hist, node, remaining)
    st.observe((layout, tuple(hist), key))
    if remaining == 0:
        return
    for op in OPS:
        child = os.path.join(base, f"n{len(hist) + 1}")
        gw.snapshot(node, child)
        os.chdir(child)
        d2 = apply_op(st, layout, op, date, hist)
        dfs(st, layout, child, d2, hist + [op], remaining - 1, seen, base)
    os.chdir(node)


def replay(case, st):
    base = pool.fresh_dir("c08r")
    root = os.path.join(base, "n0")
    date = make_repo(case["layout"], root)
    hist = []
    for op in case["history"]:
        os.chdir(root)
        date = apply_op(st, case["layout"], op, date, hist)
        hist.append(op)
    st.observe((gw.state()["tags"],))
    os.chdir("/")
