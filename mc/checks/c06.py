"""C06 - a failed update leaves the project untouched.

Projects of 1..3 (quick) / 1..5 (thorough) files x 1..2 patterns, v2 and legacy version patterns, TOML and INI
config, EVERY permutation of the file entries (config file's own entry listed explicitly at every position, or
implicit), and every single fault position: each (file, pattern) made non-matching, each file deleted, each file
made undecodable, the new version rejected (lower --set-version, no-change bump).  0 faults (control) then
exactly 1.  Each project runs `update --dry` and `update`, with commit off and with commit on (fake git).
"""
import itertools
import os

from .. import fakevcs, pool, world
from .. import projtable as pt
from ..stats import Stats

ID = "C06"
LEVEL = "fault_enumeration"
MIN_OUTCOMES = 3
MANIFEST = {
    'text': 'Single-fault enumeration over the rewrite phase: for every project shape (1..3 / 1..5 files, six pattern sets per file incl. the EMPTY pattern list, partial patterns that do not change with the bump and a pattern nested in another, v2 and legacy, TOML and INI), every order of the configured files (config entry explicit at every position or implicit), a file reached through a glob AND an explicit entry, a glob entry whose files have all been removed, a 5 MiB file / 300 files configured before the faulty one, and every fault position (pattern without match, missing file, configured path that is a directory, undecodable file, rejected version: lower, equal or malformed --set-version, bump without change, --set-version of a version that already exists as a tag) the real `update`, `update --dry` and `update` with commit/tag/push (fake git) are executed; with a fault they must exit non-zero, leave every byte unchanged and issue no add/commit/tag/push and no hook; fault-free controls must succeed. Project files differ in line-ending style (CRLF, LF, CR, with and without final newline) and carry non-ASCII text, so a restore that re-encodes them shows.',
    'note': 'double faults and I/O errors of the write itself (disk full, permissions) are outside the bound',
    'technique': 'exhaustive single-fault enumeration (deviation bound 1) over file orders on the real CLI with a fake VCS seam',
}
RULE = (
    "one evaluation = one (project, file order, fault, mode) executed on the real CLI; distinct non-trivial = distinct faulted "
    "configurations (the fault-free controls are the trivial ones)"
)
ASSUMPTIONS = ["VCS observed at the subprocess seam (mc/fakevcs.py); clean `git status`"]

ENGINES = {
    "v2": dict(vp="MAJOR.MINOR.PATCH", old="1.2.3", new="1.2.4", lower="1.2.2",
               pats=["ver={version};", "pep={pep440_version};", "api=MAJOR.MINOR;", "release ver={version}; done"],
               occ=["ver=1.2.3;", "pep=1.2.3;", "api=1.2;", "release ver=1.2.3; done"]),
    "legacy": dict(vp="{semver}", old="1.2.3", new="1.2.4", lower="1.2.2",
                   pats=["ver={version};", "sem={semver};", "api={MAJOR}.{MINOR};", "release ver={version}; done"],
                   occ=["ver=1.2.3;", "sem=1.2.3;", "api=1.2;", "release ver=1.2.3; done"]),
}
# pattern sets of a file (indices into pats): full / full+second / partial pattern that does not change with --patch / mixed
# (5: a pattern whose text CONTAINS another pattern of the same file, listed first so that both find their own occurrence)
# (0: an entry with an EMPTY pattern list - the file is configured, must exist, and has nothing to search)
PATSETS = {0: (), 1: (0,), 2: (0, 1), 3: (2,), 4: (2, 0), 5: (3, 0)}


FILE_STYLE = [("\r\n", True), ("\n", True), ("\r", True), ("\r\n", False), ("\n", False)]


def bounds(tier, seed):
    return {"max_files": 3 if tier == "quick" else 5, "pattern_sets_per_file": {str(k): list(v) for k, v in PATSETS.items()}, "engines": sorted(ENGINES),
            "config_formats": ["bumpver.toml", "setup.cfg"], "faults": ["none", "nomatch(file,pattern)", "missing(file)", "undecodable(file)", "directory(file)",
            "lower-set-version", "no-change-bump", "malformed-set-version", "equal-set-version", "set-version-of-existing-tag (commit mode)", "commit/tag message template that cannot be rendered (commit mode)"], "modes": ["update --dry", "update", "update + commit (fake git)"],
            "file_styles": "per file: CRLF / LF / CR / CRLF without final newline / LF without final newline, non-ASCII header",
            "orders": "all permutations of the file entries, config entry explicit at every position or implicit"}


def explore(tier, seed):
    nmax = 3 if tier == "quick" else 5
    chunks = []
    for engine in sorted(ENGINES):
        for fmt in ("bumpver.toml", "setup.cfg"):
            for n in range(1, nmax + 1):
                for npat in itertools.product((0, 1, 2, 3, 4, 5), repeat=n):
                    if n >= 2 and npat != tuple(sorted(npat)) and not (n == 2 and tier != "quick"):
                        continue  # pattern sets per file: only sorted distributions (file order is permuted anyway)
                    if n >= 3 and len(set(npat)) > 2:
                        continue
                    if n >= 3 and (5 in npat or 0 in npat) and tier == "quick":
                        continue  # (the nested-pattern set and the empty pattern list: one and two files in the quick tier)
                    if n >= 5 and len(set(npat)) > 1:
                        continue  # five files: the same pattern set in every file (all 120/720 orders x every fault)
                    for explicit in (False, True):
                        chunks.append((engine, fmt, n, npat, explicit))
    for engine in sorted(ENGINES):
        for fmt in ("bumpver.toml", "setup.cfg"):
            chunks.append(("@repeated", engine, fmt))
            chunks.append(("@big", engine, fmt))
    return pool.run_chunks(run_chunk, chunks)


def make_project(engine, fmt, names, npat, order, explicit, fault):
    E = ENGINES[engine]
    entries = []
    files = {}
    for name, k in zip(names, npat):
        pats = [E["pats"][i] for i in PATSETS[k]]
        lines = ["h\u00e9ader \u20ac of " + name] + [E["occ"][i] for i in PATSETS[k]] + ["footer"]
        if fault and fault[0] == "nomatch" and fault[1] == name:
            lines[1 + fault[2]] = "xxx=" + E["old"]  # the occurrence of that pattern is gone
        # line-ending style and final newline differ per file (a restore/rollback that normalises them must show)
        eol, final = FILE_STYLE[int(name[1]) % len(FILE_STYLE)]
        files[name] = (eol.join(lines) + (eol if final else "")).encode("utf-8")
        entries.append((name, pats))
    own = 'current_version = "{version}"' if fmt.endswith(".toml") else "current_version = {version}"
    ents = {name: pats for name, pats in entries}
    if explicit:
        ents[fmt] = [own]
    ordered = [(k, ents[k]) for k in order if k in ents]
    files[fmt] = pt.config_text(fmt, E["vp"], E["old"], ordered).encode()
    files["bystander.txt"] = b"ver=1.2.3;\r\n"
    if fault and fault[0] == "missing":
        del files[fault[1]]
    if fault and fault[0] == "directory":
        del files[fault[1]]
        files[fault[1] + "/inner.txt"] = b"ver=1.2.3;\n"  # the configured path exists but is a directory
    if fault and fault[0] == "undecodable":
        files[fault[1]] = b"header\nver=1.2.3;\npep=1.2.3;\nsem=1.2.3;\napi=1.2;\n\xff\xfe\xfa broken utf-8\n"
    return files


def repeated_entry_cases(st, engine, fmt):
    """src/a.txt is reached by the glob entry (pattern 0) and by an explicit entry (pattern 1); another path lies
    between them in expansion order.  Fault: the occurrence of either entry's pattern is missing."""
    E = ENGINES[engine]
    for fault_pat in (None, 0, 1, "glob-files-gone"):
        for first in ("glob", "explicit"):
            for mode in ("dry", "real", "commit"):
                lines_a = ["header a", E["occ"][0], E["occ"][1], "footer"]
                if fault_pat in (0, 1):
                    lines_a[1 + fault_pat] = "xxx=" + E["old"]
                glob_entry = ("src/*.txt", [E["pats"][0]])
                expl_entry = ("src/a.txt", [E["pats"][1]])
                if fault_pat == "glob-files-gone":
                    # the files a glob entry was configured for have all been removed (the entry then names a path that does not
                    # exist - the code's own fallback, pinned by test_parse_v2_cfg); the explicit entry points elsewhere
                    glob_entry = ("gone/*.txt", [E["pats"][0]])
                other = ("other.txt", [E["pats"][0]])
                entries = [glob_entry, other, expl_entry] if first == "glob" else [expl_entry, other, glob_entry]
                files = {
                    fmt: pt.config_text(fmt, E["vp"], E["old"], entries).encode(),
                    "src/a.txt": ("\n".join(lines_a) + "\n").encode(),
                    "src/b.txt": ("header b\n" + E["occ"][0] + "\nfooter\n").encode(),
                    "other.txt": ("x\n" + E["occ"][0] + "\n").encode(),
                    "bystander.txt": b"ver=1.2.3;\n",
                }
                world.clear_dir(".")
                world.write_tree(files)
                args = ["update", "--no-fetch", "--patch"]
                fake = None
                if mode == "dry":
                    args.append("--dry")
                if mode == "commit":
                    os.mkdir(".git")
                    args += ["--commit", "--tag-commit", "--push"]
                    fake = fakevcs.install(fakevcs.FakeVCS("git", tags_all=["1.2.1"], status=[]))
                try:
                    o = world.cli(*args)
                finally:
                    fakevcs.uninstall()
                st.evaluations += 1
                after = world.read_tree(".")
                case = {"engine": engine, "format": fmt, "repeated_entry": True, "first": first, "fault_pattern": fault_pat, "mode": mode}
                st.observe((case, o.exit, o.crashed, sorted(after.items())))
                if fault_pat is None:
                    st.outcomes["control:" + ("ok" if o.exit == 0 else "FAILED")] += 1
                    if o.exit != 0:
                        st.violation(f"C06:harness-control-run-failed:{engine}:{mode}:repeated-entry", case, {"log": o.log[-4:], "crashed": o.crashed})
                    continue
                st.validated += 1
                st.nontriv(case)
                changed = sorted(k for k in set(files) | set(after) if files.get(k) != after.get(k))
                tail = f"nomatch:repeated-entry:{mode}" if fault_pat != "glob-files-gone" else f"missing:every-file-of-a-glob-entry:{mode}"
                if o.exit == 0:
                    st.outcomes["violation"] += 1
                    st.violation(f"C06:faulted-update-exits-0:{tail}", case, {"log": o.log[-3:]})
                if changed:
                    st.outcomes["violation"] += 1
                    st.violation(f"C06:files-changed-by-failed-update:{tail}", case, {"changed": changed, "exit": o.exit})
                if fake is not None and [e for e in fake.effect_names() if e != "fetch"]:
                    st.outcomes["violation"] += 1
                    st.violation(f"C06:vcs-effects-after-failed-rewrite:{tail}", case, {"effects": fake.effect_names()})
                if o.exit != 0 and not changed:
                    st.outcomes["refused-cleanly:nomatch:repeated-entry"] += 1


def big_first_cases(st, engine, fmt):
    """A 5 MiB file and 300 small files are configured BEFORE the file that has the fault: nothing may be written early."""
    E = ENGINES[engine]
    filler = ("lorem ipsum dolor sit amet " * 40 + "\n") * 5000  # ~5.4 MB
    for shape in ("one-big-file", "300-files"):
        for fault in (("nomatch",), ("missing",)):
            for mode in ("dry", "real", "commit"):
                files, entries = {}, []
                if shape == "one-big-file":
                    files["a_big.txt"] = (filler[: len(filler) // 2] + E["occ"][0] + "\n" + filler[len(filler) // 2:]).encode()
                    entries.append(("a_big.txt", [E["pats"][0]]))
                else:
                    for i in range(300):
                        files[f"many/f{i:03d}.txt"] = (f"file {i}\n" + E["occ"][0] + "\n").encode()
                    entries.append(("many/*.txt", [E["pats"][0]]))
                files["z_last.txt"] = ("header\n" + ("xxx=" + E["old"] if fault == ("nomatch",) else E["occ"][0]) + "\n").encode()
                entries.append(("z_last.txt", [E["pats"][0]]))
                files[fmt] = pt.config_text(fmt, E["vp"], E["old"], entries).encode()
                if fault == ("missing",):
                    del files["z_last.txt"]
                world.clear_dir(".")
                world.write_tree(files)
                args = ["update", "--no-fetch", "--patch"]
                fake = None
                if mode == "dry":
                    args.append("--dry")
                if mode == "commit":
                    os.mkdir(".git")
                    args += ["--commit", "--tag-commit", "--push"]
                    fake = fakevcs.install(fakevcs.FakeVCS("git", tags_all=["1.2.1"], status=[]))
                try:
                    o = world.cli(*args)
                finally:
                    fakevcs.uninstall()
                st.evaluations += 1
                st.transitions += 1
                st.validated += 1
                after = world.read_tree(".")
                case = {"engine": engine, "format": fmt, "big_first": shape, "fault": list(fault), "mode": mode}
                st.nontriv(case)
                st.state("big-first", engine, fmt, shape, fault, mode)
                changed = sorted(k for k in set(files) | set(after) if files.get(k) != after.get(k))
                st.observe((case, o.exit, o.crashed, changed, fake.effect_names() if fake else None))
                tail = f"{fault[0]}:after-{shape}:{mode}"
                if o.exit == 0:
                    st.outcomes["violation"] += 1
                    st.violation(f"C06:faulted-update-exits-0:{tail}", case, {"log": o.log[-3:]})
                if changed:
                    st.outcomes["violation"] += 1
                    st.violation(f"C06:files-changed-by-failed-update:{tail}", case, {"changed": changed[:5], "count": len(changed), "exit": o.exit})
                if fake is not None and [e for e in fake.effect_names() if e != "fetch"]:
                    st.outcomes["violation"] += 1
                    st.violation(f"C06:vcs-effects-after-failed-rewrite:{tail}", case, {"effects": fake.effect_names()[:6]})
                if o.exit != 0 and not changed:
                    st.outcomes[f"refused-cleanly:{fault[0]}:after-big-content"] += 1


def run_chunk(chunk):
    import datetime as dt

    if chunk[0] == "@big":
        st = Stats()
        world.set_today(dt.date(2033, 3, 3))
        d = pool.fresh_dir("c06b")
        os.chdir(d)
        big_first_cases(st, chunk[1], chunk[2])
        os.chdir("/")
        return st
    if chunk[0] == "@repeated":
        st = Stats()
        world.set_today(dt.date(2033, 3, 3))
        d = pool.fresh_dir("c06r")
        os.chdir(d)
        repeated_entry_cases(st, chunk[1], chunk[2])
        os.chdir("/")
        return st
    engine, fmt, n, npat, explicit = chunk
    st = Stats()
    world.set_today(dt.date(2033, 3, 3))
    d = pool.fresh_dir("c06")
    os.chdir(d)
    names = [f"f{i}.txt" for i in range(n)]
    keys = names + ([fmt] if explicit else [])
    faults = [None]
    for name, k in zip(names, npat):
        for j in range(len(PATSETS[k])):
            faults.append(("nomatch", name, j))
        faults.append(("missing", name))
        faults.append(("undecodable", name))
        faults.append(("directory", name))
    faults += [("lower-set-version",), ("no-change-bump",), ("malformed-set-version",), ("equal-set-version",), ("set-version-of-existing-tag",),
               ("bad-message-template", "bump {new_versio}"), ("bad-message-template", "fix {"), ("bad-tag-template", "release {0}")]
    for order in itertools.permutations(keys):
        for fault in faults:
            for mode in ("dry", "real", "commit"):
                if fault == ("set-version-of-existing-tag",) and mode != "commit":
                    continue  # (without a repository there are no tags: the version is acceptable)
                if fault and fault[0] in ("bad-message-template", "bad-tag-template") and mode != "commit":
                    continue  # (a template that cannot be rendered matters when a commit/tag is made)
                run_one(st, engine, fmt, names, npat, order, explicit, fault, mode)
    os.chdir("/")
    return st


def run_one(st, engine, fmt, names, npat, order, explicit, fault, mode):
    E = ENGINES[engine]
    files = make_project(engine, fmt, names, npat, order, explicit, fault)
    world.clear_dir(".")
    world.write_tree(files)
    args = ["update", "--no-fetch"]
    if fault == ("lower-set-version",):
        args += ["--set-version", E["lower"]]
    elif fault == ("malformed-set-version",):
        args += ["--set-version", "1.2.x"]
    elif fault == ("equal-set-version",):
        args += ["--set-version", E["old"]]
    elif fault and fault[0] == "bad-message-template":
        args += ["--patch", "--commit-message", fault[1]]
    elif fault and fault[0] == "bad-tag-template":
        args += ["--patch", "--tag-message", fault[1]]
    elif fault == ("set-version-of-existing-tag",):
        args += ["--ignore-vcs-tag", "--set-version", E["new"]]  # 1.2.4 is a tag on another branch
    elif fault == ("no-change-bump",):
        pass  # SemVer without --major/--minor/--patch: nothing changes
    else:
        args += ["--patch"]
    fake = None
    if mode == "dry":
        args.append("--dry")
    if mode == "commit":
        os.mkdir(".git")
        args += ["--commit", "--tag-commit", "--push"]
        fake = fakevcs.install(fakevcs.FakeVCS("git", tags_all=["1.2.1"] + ([E["new"]] if fault == ("set-version-of-existing-tag",) else []), tags_merged=["1.2.1"], status=[]))
    try:
        o = world.cli(*args)
    finally:
        fakevcs.uninstall()
    st.evaluations += 1
    st.transitions += 1
    after = world.read_tree(".")
    st.state(sorted(files.items()), mode, args)
    fname = "none" if fault is None else fault[0]
    case = {"engine": engine, "format": fmt, "files": list(names), "patterns_per_file": list(npat), "order": list(order),
            "explicit_config_entry": explicit, "fault": list(fault) if fault else None, "mode": mode}
    st.observe((case, o.exit, o.crashed, sorted(after.items()), fake.effect_names() if fake else None))
    if fault is None:
        st.outcomes["control:" + ("ok" if o.exit == 0 else "FAILED")] += 1
        if o.exit != 0:
            st.violation(f"C06:harness-control-run-failed:{engine}:{mode}", case, {"log": o.log[-4:], "crashed": o.crashed})
        return
    st.validated += 1
    st.nontriv(case)
    pos = ""
    if fault[0] in ("nomatch", "missing", "undecodable", "directory"):
        pos = ":first-file" if order.index(fault[1]) == 0 else ":later-file"
    sig_tail = f"{fname}{pos}:{mode}"
    if o.exit == 0 and fname == "undecodable":
        # the statement names missing matches, missing files and rejected versions; an undecodable file need not be read
        st.outcomes["undecodable-file-tolerated"] += 1
        return
    if o.exit == 0:
        st.outcomes["violation"] += 1
        st.violation(f"C06:faulted-update-exits-0:{sig_tail}", case, {"log": o.log[-3:]})
    changed = sorted(k for k in set(files) | set(after) if files.get(k) != after.get(k))
    if changed:
        st.outcomes["violation"] += 1
        st.violation(f"C06:files-changed-by-failed-update:{sig_tail}", case, {"changed": changed, "exit": o.exit, "crashed": o.crashed})
    if fake is not None:
        eff = [e for e in fake.effect_names() if e != "fetch"]
        if eff:
            st.outcomes["violation"] += 1
            st.violation(f"C06:vcs-effects-after-failed-rewrite:{sig_tail}", case, {"effects": eff})
    if o.exit != 0 and not changed:
        st.outcomes[f"refused-cleanly:{fname}" + (":crash" if o.crashed else "")] += 1
    if fault == ("nomatch", "f0.txt", 0) and mode == "real" and len(names) == 2 and order[0] == "f1.txt":
        st.sample({"case": case, "exit": o.exit, "changed": changed})


def replay(case, st):
    import datetime as dt

    world.set_today(dt.date(2033, 3, 3))
    d = pool.fresh_dir("c06r")
    os.chdir(d)
    if case.get("repeated_entry"):
        repeated_entry_cases(st, case["engine"], case["format"])
        os.chdir("/")
        return
    if case.get("big_first"):
        big_first_cases(st, case["engine"], case["format"])
        os.chdir("/")
        return
    run_one(st, case["engine"], case["format"], case["files"], tuple(case["patterns_per_file"]), tuple(case["order"]),
            case["explicit_config_entry"], tuple(case["fault"]) if case["fault"] else None, case["mode"])
    os.chdir("/")
