"""C13 - --dry changes nothing and shows exactly what a real run would do.

Constructed projects (as C03/C04, consistent line endings LF / CRLF / CR) x flag sets {--set-version, --patch, --tag,
--date, nothing} x message templates {default, custom, unknown field, positional, unbalanced} x v2 and legacy
patterns.  Each project is snapshotted, run with --dry, compared, then run for real from the same snapshot.
Oracle: --dry leaves all bytes identical; if --dry exits 0 its stdout is parsed by a STRICT unified-diff applier
and the patched files must be byte-equal to what the real run wrote, and the real run must exit 0.
"""
import itertools
import os
import re

from .. import pool, projgen, world
from .. import projtable as pt
from ..ref import model as M
from ..stats import Stats
from . import c03, c04

ID = "C13"
LEVEL = "model_checking"
MIN_OUTCOMES = 3
MANIFEST = {
    'text': 'Complete enumeration of a constructed project table (incl. files that lag behind current_version, files that begin with a UTF-8 BOM, files of 6,000 and 2,500 lines with several hunks, a 20,000-character line, file patterns with a calendar part under version patterns without one (with --date / --pin-date), and files with FF/control characters, U+2028, NBSP or decomposed text around the version line) x flag sets x message templates, plus fake-git cases in which a fetch brings newer tags, and every subset of six existing tags around the version about to be created (twins that do not match the pattern, a newer valid tag, junk, a pre-release, the new version itself) x scope x committing on/off: the two-step history (update --dry; update) is executed on the real CLI from the same snapshot; the dry run must not change a byte, and whenever it exits 0 the unified diff it printed - applied by a strict applier that checks file names, line numbers, counts and every context/removed line under the file\'s own separator - must reproduce exactly the bytes the real run writes, and the real run must exit 0. A real-git chunk repeats the two-step history with committing on in clean real repositories whose configured file is tracked / git-ignored / ignored but tracked / inside an ignored directory (x tag x separate git dir): what --dry cannot see - the staging step, and messages with \' " $ ` handed to the real tool - must not make the real run fail.',
    'note': 'mixed line endings are excluded by the property; coloured tty output is not exercised',
    'technique': 'exhaustive enumeration of bounded project x argument space, differential oracle (strict diff applier vs real run) on the real CLI',
}
RULE = (
    "one evaluation = one CLI run; a case = (project, flag set, template) run as --dry then real from one snapshot; distinct "
    "non-trivial = distinct cases whose dry run exited 0 and whose diff was applied and compared"
)
ASSUMPTIONS = ["stdout of the in-process CLI (click.echo) is the diff; log lines go to the logging handler"]

HUNK = re.compile(r"^@@ -(\d+)(?:,(\d+))? \+(\d+)(?:,(\d+))? @@$")


class DiffError(Exception):
    pass


def apply_unified(stdout, files, seps):
    """files: {path: str content}; seps: {path: separator}.  -> {path: new content}.  Raises DiffError on anything sloppy."""
    out = dict(files)
    lines = stdout.split("\n")
    if lines and lines[-1] == "":
        lines.pop()  # click.echo terminates the text with one newline
    i = 0
    seen = set()
    while i < len(lines):
        if lines[i] == "":
            i += 1
            continue
        if not lines[i].startswith("--- "):
            raise DiffError(f"line {i + 1}: expected '--- <file>', got {lines[i]!r}")
        path = lines[i][4:]
        if i + 1 >= len(lines) or lines[i + 1] != "+++ " + path:
            raise DiffError(f"line {i + 2}: expected '+++ {path}'")
        if path not in files:
            raise DiffError(f"diff names a file that does not exist: {path!r}")
        if path in seen:
            raise DiffError(f"file {path!r} appears twice")
        seen.add(path)
        i += 2
        old = files[path].split(seps[path])
        new = []
        cursor = 0  # index into old
        if i >= len(lines) or not HUNK.match(lines[i]):
            raise DiffError(f"file header of {path!r} without a hunk")
        while i < len(lines) and HUNK.match(lines[i]):
            m = HUNK.match(lines[i])
            a = int(m.group(1))
            na = 1 if m.group(2) is None else int(m.group(2))
            b = int(m.group(3))
            nb = 1 if m.group(4) is None else int(m.group(4))
            i += 1
            start = a - 1 if na > 0 else a
            if start < cursor:
                raise DiffError(f"{path}: hunk @@ -{a} overlaps the previous one")
            new.extend(old[cursor:start])
            if len(new) != (b - 1 if nb > 0 else b):
                raise DiffError(f"{path}: hunk @@ -{a},{na} +{b},{nb}: new-file line number does not add up ({len(new) + 1})")
            cursor = start
            ca = cb = 0
            while ca < na or cb < nb:
                if i >= len(lines):
                    raise DiffError(f"{path}: hunk truncated")
                ln = lines[i]
                tag, text = ln[:1], ln[1:]
                if tag == " ":
                    if cursor >= len(old) or old[cursor] != text:
                        raise DiffError(f"{path}: context line {text!r} does not match file line {cursor + 1}")
                    new.append(text)
                    cursor += 1
                    ca += 1
                    cb += 1
                elif tag == "-":
                    if cursor >= len(old) or old[cursor] != text:
                        raise DiffError(f"{path}: removed line {text!r} does not match file line {cursor + 1}")
                    cursor += 1
                    ca += 1
                elif tag == "+":
                    new.append(text)
                    cb += 1
                else:
                    raise DiffError(f"{path}: bad hunk line {ln!r}")
                i += 1
            if ca != na or cb != nb:
                raise DiffError(f"{path}: hunk counts wrong")
        new.extend(old[cursor:])
        out[path] = seps[path].join(new)
    return out


TEMPLATES = {
    "default": "",
    "custom": 'commit_message = "release {new_version} (was {old_version}, pep {new_version_pep440})"',
    "unknown-field": 'commit_message = "bump to {new_version} on {date}"',
    "positional": 'tag_message = "release {}"',
    "unbalanced": 'commit_message = "bump {new_version"',
}


def flagsets(pat, new_text):
    fs = [("set-version", ["--set-version", new_text]), ("nothing", [])]
    if "PATCH" in pat.names:
        fs.append(("patch", ["--patch"]))
    if "TAG" in pat.names or "PYTAG" in pat.names:
        fs.append(("tag", ["--tag", "rc", "--patch"] if "PATCH" in pat.names else ["--tag", "rc"]))
    if any(f in M.CAL_FIELDS for f in pat.fields):
        fs.append(("date", ["--date", "2023-05-17"]))
    return fs


def bounds(tier, seed):
    return {"version_cases": len(cases(tier)), "regimes": ["LF", "CRLF", "CR"], "final_newline": [True, False],
            "templates": sorted(TEMPLATES), "legacy_cases": len(c04.legacy_cases())}


def cases(tier):
    vc = pt.version_cases(tier)
    return [c for c in vc if c[1] in (("all-parts", "one-part", "groups-vanish") if tier == "thorough" else ("all-parts", "groups-vanish"))]


def explore(tier, seed):
    chunks = [("v2", tier, i) for i in range(len(cases(tier)))] + [("legacy", tier, i) for i in range(len(c04.legacy_cases()))]
    chunks.append(("fetch", tier, 0))
    for scope in ("default", "global", "branch"):
        chunks.append(("tags", tier, scope))
    chunks.append(("large", tier, 0))
    chunks.append(("realgit", tier, 0))
    return pool.run_chunks(run_chunk, chunks)


def layouts(pat, old, new, fmt, tier):
    subsets = [s for s in projgen.pattern_subsets(pat, 2) if pt.compatible(s, old, new)]
    if fmt == "setup.cfg":
        subsets = [s for s in subsets if all(pt.ini_expressible(fp.raw) for fp in s)]
    partial = [s for s in subsets if len(s) == 1 and s[0].pid in ("majmin", "maj", "copyright")]
    subsets = subsets if tier == "thorough" else subsets[:5] + [s for s in subsets if len(s) == 2][:4] + [s for s in partial if s not in subsets[:5]]
    for s in subsets:
        ids = "+".join(fp.pid for fp in s)
        for regime in ("LF", "CRLF", "CR"):
            for final_nl in (True, False):
                f = projgen.build_file("a.txt", s, "own-lines", {"LF": "ascii", "CRLF": "trailing", "CR": "accent"}[regime], regime, final_nl)
                yield (f"own:{ids}:{regime}:{final_nl}", [f], [("a.txt", [fp.raw for fp in s])])
        if len(s) == 2 and not any(fp.anchor_l or fp.anchor_r for fp in s):
            f = projgen.build_file("a.txt", s, ("one-line", (1, 0)), "ascii", "CRLF", False)
            yield (f"one-line:{ids}", [f], [("a.txt", [fp.raw for fp in s])])
        # characters that str.splitlines() takes for line boundaries (FF, ESC-free control characters, U+2028) on the version line and in the
        # context lines; text whose length changes under normalisation
        for fill, regime in (("ctrl", "LF"), ("invisible", "CRLF"), ("decomposed", "LF")):
            f = projgen.build_file("a.txt", s, "own-lines", fill, regime, True)
            yield (f"own:{ids}:{fill}:{regime}", [f], [("a.txt", [fp.raw for fp in s])])
        # a file that begins with a UTF-8 byte order mark (.NET / Windows editors), with the occurrence further down and on line 1
        for regime, arr in (("CRLF", "own-lines"), ("LF", "single-line")):
            if arr == "single-line" and len(s) != 1:
                continue
            f = projgen.build_file("a.txt", s, arr, "accent", regime, True, bom=True)
            yield (f"bom:{arr}:{ids}:{regime}", [f], [("a.txt", [fp.raw for fp in s])])
        if any(fp.pid in ("majmin", "maj", "copyright") for fp in s) and len(s) == 1:
            # a file whose only pattern is partial, and whose content LAGS behind current_version (stale file / tag ahead):
            # patterns match any version, so the real run brings it up to date - the dry diff must show exactly that
            f = projgen.build_file("a.txt", s, "own-lines", "ascii", "LF", True)
            yield (f"lagging:{ids}", [f], [("a.txt", [fp.raw for fp in s])])
        f1 = projgen.build_file("z/last.txt", s, ("repeat", 2), "ascii", "LF", True)
        f2 = projgen.build_file("a.txt", s[:1], "own-lines", "tab", "CR", True)
        yield (f"two-files:{ids}", [f1, f2], [("z/last.txt", [fp.raw for fp in s]), ("a.txt", [fp.raw for fp in s[:1]])])


def run_chunk(chunk):
    import datetime as dt

    kind, tier, idx = chunk
    st = Stats()
    world.set_today(dt.date(2022, 12, 1))
    d = pool.fresh_dir("c13")
    os.chdir(d)
    if kind == "fetch":
        fetch_cases(st)
        os.chdir("/")
        return st
    if kind == "tags":
        tag_cases(st, idx)
        os.chdir("/")
        return st
    if kind == "realgit":
        real_git_cases(st)
        os.chdir("/")
        return st
    if kind == "large":
        calendar_only_in_a_file_pattern(st)
        large_files(st)
        os.chdir("/")
        return st
    if kind == "v2":
        pat, label, old, new = cases(tier)[idx]
        old_text, new_text = M.render(pat.tree, old), M.render(pat.tree, new)
        for fmt in ("bumpver.toml", "setup.cfg"):
            for lid, files, entries in layouts(pat, old, new, fmt, tier):
                for fname, flags in flagsets(pat, new_text):
                    for tname in (sorted(TEMPLATES) if lid.startswith("own") and ":LF:True" in lid else ("default",)):
                        extra = TEMPLATES[tname] if fmt.endswith(".toml") else TEMPLATES[tname].replace('"', "")
                        tree = {fmt: pt.config_text(fmt, pat.text, old_text, entries, extra=extra).encode("utf-8")}
                        seps = {fmt: "\n"}
                        for f in files:
                            src_state = old
                            if lid.startswith("lagging"):
                                src_state = dict(old)
                                for k in ("major", "year"):
                                    if k in src_state:
                                        src_state[k] -= 1
                            tree[f.name] = f.render_old(src_state).encode("utf-8")
                            seps[f.name] = f.seps[0] if f.seps else "\n"
                        case = {"pattern": pat.text, "states": label, "format": fmt, "layout": lid, "flags": flags, "template": tname}
                        dry_then_real(st, tree, seps, flags, case, f"{fname}:{tname}")
        if idx == 0:
            st.sample({"pattern": pat.text, "old": old_text, "flagsets": [f for f, _ in flagsets(pat, new_text)], "templates": sorted(TEMPLATES)})
    else:
        label, vp, oldv, newv, fps = c04.legacy_cases()[idx]
        for regime in ("LF", "CRLF", "CR"):
            for final_nl in (True, False):
                for sub in ([fps[0]], fps):
                    f = projgen.build_file("a.txt", sub, "own-lines", "euro", regime, final_nl)
                    cfg = f'[bumpver]\ncurrent_version = "{oldv}"\nversion_pattern = "{vp}"\n\n[bumpver.file_patterns]\n"a.txt" = [\n' + "".join(f"    {pt.toml_str(fp.raw)},\n" for fp in sub) + "]\n"
                    tree = {"bumpver.toml": cfg.encode(), "a.txt": f.render_old(None).encode("utf-8")}
                    seps = {"bumpver.toml": "\n", "a.txt": f.seps[0]}
                    for fname, flags in (("set-version", ["--set-version", newv]), ("patch", ["--patch"]), ("nothing", ["--date", "2023-05-17"]), ("tag", ["--tag", "rc"])):
                        case = {"legacy": label, "layout": f"{'+'.join(x.pid for x in sub)}:{regime}:{final_nl}", "flags": flags}
                        dry_then_real(st, tree, seps, flags, case, f"legacy:{fname}")
    os.chdir("/")
    return st


def fetch_cases(st):
    """With a remote and fetching on (the default), the fetch may bring tags that change the start version: the dry
    run must preview what the real run then does (the fake git serves extra tags once `fetch` has been issued)."""
    from .. import fakevcs

    for scope in ("default", "global", "branch"):
        for local_tags, remote_tags in ((["1.2.3"], ["1.2.3", "1.4.0"]), ([], ["2.0.0"]), (["1.2.3", "1.3.0"], ["1.2.3", "1.3.0"])):
            for fetch_flag in ("--fetch", "--no-fetch", None):
                cfg = ('[bumpver]\ncurrent_version = "1.2.3"\nversion_pattern = "MAJOR.MINOR.PATCH"\n'
                       f'tag_scope = "{scope}"\ncommit = false\n\n[bumpver.file_patterns]\n"a.txt" = ["ver={{version}};"]\n')
                tree = {"bumpver.toml": cfg.encode(), "a.txt": b"x\nver=1.2.3;\ny\n"}
                seps = {"bumpver.toml": "\n", "a.txt": "\n"}
                flags = ["--patch"] + ([fetch_flag] if fetch_flag else [])
                case = {"fetch_case": True, "scope": scope, "local_tags": local_tags, "remote_tags": remote_tags, "flags": flags}

                def vcs():
                    os.mkdir(".git")
                    return fakevcs.install(fakevcs.FakeVCS("git", tags_all=local_tags, tags_merged=local_tags, status=[], remote="upstream",
                                                           tags_after_fetch=remote_tags))

                dry_then_real(st, tree, seps, flags, case, f"fetch:{scope}", base_flags=(), vcs=vcs)


def calendar_only_in_a_file_pattern(st):
    """The version pattern has no calendar part, a file pattern has one (a copyright year, a release date line): whatever date the real
    run uses for it - today's or the one given with --date - the dry run must show the same."""
    for vp, old in (("MAJOR.MINOR.PATCH", "1.2.3"), ("vMAJOR.MINOR[.PATCH[-TAG]]", "v1.2")):
        for fpat, text in (("Copyright (c) YYYY Example Authors", "Copyright (c) 2019 Example Authors"), ("released YYYY-0M-0D", "released 2019-03-04"),
                           ("week YYYY.0W", "week 2019.09")):
            for flags in (["--patch"], ["--patch", "--date", "2099-05-05"], ["--minor", "--date", "2001-01-01"], ["--patch", "--pin-date"]):
                cfg = (f'[bumpver]\ncurrent_version = "{old}"\nversion_pattern = "{vp}"\n\n[bumpver.file_patterns]\n'
                       f'"LICENSE" = ["{fpat}"]\n"a.txt" = ["ver={{version}};"]\n')
                tree = {"bumpver.toml": cfg.encode(), "LICENSE": ("MIT\n" + text + "\nmore\n").encode(), "a.txt": f"ver={old};\n".encode()}
                seps = {"bumpver.toml": "\n", "LICENSE": "\n", "a.txt": "\n"}
                case = {"calendar_in_file_pattern": fpat, "version_pattern": vp, "flags": flags}
                dry_then_real(st, tree, seps, flags, case, "calendar-part-only-in-a-file-pattern")


def large_files(st):
    """Files of several thousand lines with occurrences far apart (several hunks, the first one not at the top), and a very long
    line: the printed diff must still apply and give what the real run writes."""
    shapes = {
        "6000-lines": [("ver=1.2.3; at %d" % i) if i in (40, 41, 2999, 5000, 5990) else "line %d of the changelog" % i for i in range(6000)],
        "2500-lines-crlf": [("ver=1.2.3; at %d" % i) if i in (7, 1200, 2490) else "entry %d" % i for i in range(2500)],
        "long-line": ["header", "x" * 9000 + " ver=1.2.3; " + "y" * 9000, "middle", "ver=1.2.3;", "tail"],
    }
    for name, lines in shapes.items():
        sep = "\r\n" if name.endswith("crlf") else "\n"
        for flags in (["--patch"], ["--minor"], ["--set-version", "1.2.10"]):
            cfg = ('[bumpver]\ncurrent_version = "1.2.3"\nversion_pattern = "MAJOR.MINOR.PATCH"\n\n[bumpver.file_patterns]\n"big.txt" = ["ver={version};"]\n')
            tree = {"bumpver.toml": cfg.encode(), "big.txt": (sep.join(lines) + sep).encode()}
            seps = {"bumpver.toml": "\n", "big.txt": sep}
            case = {"large_file": name, "flags": flags}
            dry_then_real(st, tree, seps, flags, case, f"large-file:{name}")


STRAY_TAGS = ["1.3.0", "v1.3", "v1.2.10", "release-1", "v1.3.0rc1", "v1.3.0"]


def tag_cases(st, scope):
    """Existing tags around the version about to be created - twins that do not match the pattern but denote the same version (`1.3.0`,
    `v1.3` for `v1.3.0`), a pattern-valid newer tag, a junk tag, a pre-release of it, the new version itself - in every subset, with
    committing/tagging on and off: whatever `update` decides about them, `--dry` must decide the same."""
    import itertools

    from .. import fakevcs

    for r in range(len(STRAY_TAGS) + 1):
        for extra in itertools.combinations(STRAY_TAGS, r):
            for commit in (False, True):
                for bump in ("--minor", "--patch"):
                    tags = ["v1.2.9"] + list(extra)
                    merged = ["v1.2.9"] + [t for i, t in enumerate(extra) if i % 2 == 0]  # every other stray tag is on this branch
                    cfg = ('[bumpver]\ncurrent_version = "v1.2.9"\nversion_pattern = "vMAJOR.MINOR.PATCH"\n'
                           f'tag_scope = "{scope}"\ncommit = {"true" if commit else "false"}\ntag = {"true" if commit else "false"}\npush = false\n\n'
                           '[bumpver.file_patterns]\n"a.txt" = ["ver={version};"]\n')
                    tree = {"bumpver.toml": cfg.encode(), "a.txt": b"x\nver=v1.2.9;\ny\n"}
                    seps = {"bumpver.toml": "\n", "a.txt": "\n"}
                    case = {"tag_case": True, "scope": scope, "tags": tags, "on_this_branch": merged, "commit_and_tag": commit, "flags": [bump]}

                    def vcs():
                        os.mkdir(".git")
                        return fakevcs.install(fakevcs.FakeVCS("git", tags_all=tags, tags_merged=merged, status=[], remote=None))

                    dry_then_real(st, tree, seps, [bump], case, f"existing-tags:{scope}" + (":committing" if commit else ""), base_flags=("--no-fetch",), vcs=vcs)


GIT_FILE_STATES = ("tracked", "ignored", "ignored-but-tracked", "ignored-directory")


def real_git_cases(st):
    """A real run that commits ends in the repository's own tools: in a CLEAN real git work tree (nothing for `git status` to report) a
    configured file may still be tracked, git-ignored (a generated `_version.py`), ignored but tracked, or inside an ignored directory.
    `--dry` cannot see the staging step; when it exits 0 the real run must exit 0 too and produce the files of the diff."""
    from .. import gitworld as gw

    for state in GIT_FILE_STATES:
        for tag in (False, True):
            for separate, msg in ((False, None), (True, None), (False, "release {new_version}, don't panic"), (True, 'it\'s "{new_version}" ($HOME `date`) now')):
                gen = "build/_version.py" if state == "ignored-directory" else "src/_version.py"
                cfg = ('[bumpver]\ncurrent_version = "1.2.3"\nversion_pattern = "MAJOR.MINOR.PATCH"\n'
                       f'commit = true\ntag = {"true" if tag else "false"}\npush = false\n'
                       + (f"commit_message = {pt.toml_str(msg)}\ntag_message = {pt.toml_str(msg)}\n" if msg else "") + "\n"
                       f'[bumpver.file_patterns]\n"bumpver.toml" = [\'current_version = "{{version}}"\']\n"a.txt" = ["ver={{version}};"]\n"{gen}" = ["{{version}}"]\n')
                ignore = {"tracked": "*.pyc\n", "ignored": "src/_version.py\n", "ignored-but-tracked": "_version.py\n", "ignored-directory": "/build/\n"}[state]
                tree = {"bumpver.toml": cfg.encode(), "a.txt": b"x\nver=1.2.3;\ny\n", gen: b'__version__ = "1.2.3"\n', ".gitignore": ignore.encode()}
                seps = {k: "\n" for k in tree}
                case = {"real_git": True, "configured_file": state, "tag": tag, "separate_git_dir": separate, "flags": ["--patch"], "message": msg}

                def vcs():
                    gw.init(".", separate=separate)
                    gw.git("add", "-A")
                    if state == "ignored-but-tracked":
                        gw.git("add", "-f", gen)
                    gw.git("commit", "-q", "-m", "initial")
                    assert gw.git("status", "--porcelain").strip() == "", gw.git("status", "--porcelain")

                dry_then_real(st, tree, seps, ["--patch"], case, f"real-git:{state}", base_flags=("--no-fetch",), vcs=vcs)
                import shutil

                shutil.rmtree(os.path.abspath(".").rstrip("/") + ".gitstore", ignore_errors=True)


def dry_then_real(st, tree, seps, flags, case, label, base_flags=("--no-fetch", "--ignore-vcs-tag"), vcs=None):
    from .. import fakevcs

    world.clear_dir(".")
    world.write_tree(tree)
    if vcs:
        vcs()
    try:
        o_dry = world.cli("update", *base_flags, "--dry", *flags)
    finally:
        fakevcs.uninstall()
    after_dry = world.read_tree(".")
    if vcs:
        world.clear_dir(".")
        world.write_tree(tree)
        vcs()
    try:
        o_real = world.cli("update", *base_flags, *flags)
    finally:
        fakevcs.uninstall()
    after_real = world.read_tree(".")
    st.evaluations += 2
    st.transitions += 2
    st.observe((case, o_dry.exit, o_dry.stdout, o_real.exit, sorted(after_real.items())))
    st.state(sorted(after_real.items()))
    if after_dry != tree:
        st.outcomes["violation"] += 1
        st.violation(f"C13:dry-run-changed-files:{label}", case, {"changed": sorted(k for k in after_dry if after_dry[k] != tree.get(k))})
    if o_dry.exit != 0:
        st.outcomes["dry-refused" + (":crash" if o_dry.crashed else "")] += 1
        return
    st.validated += 1
    st.nontriv(case)
    if o_real.exit != 0:
        st.outcomes["violation"] += 1
        st.violation(f"C13:dry-ok-but-real-run-fails:{label}", case, {"real_exit": o_real.exit, "crashed": o_real.crashed, "log": o_real.log[-3:]})
        return
    try:
        texts = {k: v.decode("utf-8") for k, v in tree.items()}
        patched = apply_unified(o_dry.stdout, texts, seps)
    except DiffError as ex:
        st.outcomes["violation"] += 1
        st.violation(f"C13:diff-not-a-valid-unified-diff:{label}", case, {"error": str(ex), "stdout": o_dry.stdout[:600]})
        return
    want = {k: v.decode("utf-8", errors="surrogateescape") for k, v in after_real.items()}  # (a damaged file must be reported, not crash the check)
    wrong = sorted(k for k in set(patched) | set(want) if patched.get(k) != want.get(k))
    if wrong:
        st.outcomes["violation"] += 1
        st.violation(f"C13:diff-differs-from-real-run:{label}", case,
                     {"files": wrong, "patched": {k: patched.get(k, "")[:300] for k in wrong}, "real": {k: want.get(k, "")[:300] for k in wrong}})
    else:
        st.outcomes["dry-diff-equals-real-run"] += 1


def replay(case, st):
    import datetime as dt

    world.set_today(dt.date(2022, 12, 1))
    d = pool.fresh_dir("c13r")
    os.chdir(d)
    try:
        for tier in ("quick", "thorough"):
            if case.get("fetch_case"):
                fetch_cases(st)
                return
            if case.get("tag_case"):
                tag_cases(st, case["scope"])
                return
            if case.get("large_file"):
                large_files(st)
                return
            if case.get("real_git"):
                real_git_cases(st)
                return
            if case.get("calendar_in_file_pattern"):
                calendar_only_in_a_file_pattern(st)
                return
            if "legacy" in case:
                for i, lc in enumerate(c04.legacy_cases()):
                    if lc[0] == case["legacy"]:
                        tmp = Stats()
                        st.merge(run_chunk(("legacy", tier, i)))
                        return
                continue
            for i, (pat, label, old, new) in enumerate(cases(tier)):
                if pat.text == case["pattern"] and label == case["states"]:
                    st.merge(run_chunk(("v2", tier, i)))
                    return
    finally:
        os.chdir("/")
