"""C10 - VCS steps run only as configured, in order, and stop at the first failure.

The configuration lattice is enumerated completely at the subprocess seam (mc/fakevcs.py): config commit/tag/push x
CLI tri-states --commit/--tag-commit/--push x pre/post hook {absent, ok, fails} x work tree state x --allow-dirty
x tag message x remote x --dry x --fetch/--no-fetch x {git, hg}; then every issued effect command (and the status
query) answers with failure in turn (deviation bound 1).  Monitors over the recorded trace constrain *effects*
only (fetch, hook runs, add, commit, tag, push) - read-only queries may be issued freely.
"""
import itertools
import os
import sys

from .. import fakevcs, pool, world
from ..stats import Stats, h64

ID = "C10"
LEVEL = "model_checking"
MIN_OUTCOMES = 5
MANIFEST = {
    'text': "Complete enumeration of the VCS configuration lattice (thorough: full product incl. all 27 CLI tri-state combinations; quick: one tri-state at a time + a slice of pairs) with hooks {absent, ok, fails, killed by a signal} given by config or on the command line, with and without foreign BUMPVER_OLD/NEW_VERSION values already in bumpver's own environment, `.git` as a directory or as a file (linked work tree), on the real `update` with a fake git/hg at the subprocess seam, plus single-fault injection at every effect position (each once with a neutral error text and once with the text the real tool prints for the usual cause - tag already exists, nothing to commit, failed to push, not a repository): the ordered effect trace of each run must be exactly the prefix the property prescribes for the effective settings. The full-configuration points also run as `python -m bumpver` child processes under an ASCII locale (git's answers contain a non-ASCII branch name) with fake executables on PATH and must issue the same commands. A variant with a glob that expands to 14 files of one directory (next to files there that are not configured) adds the oracle that the paths named by the staging commands are exactly the configured files. A seam-conformance pass re-runs ~1,000 configurations with fake executables first on PATH and requires identical command traces (otherwise HARNESS-ERROR, never a violation).",
    'note': 'double faults, real hg and non-executable hook scripts are outside the bound; the git command set is executed for real by C08/C11/C12',
    'technique': 'explicit-state exploration of the configuration lattice + single-fault enumeration on the implementation, trace monitors',
}
RULE = (
    "state = (configuration point, fault position); transition = one execution of the real `update`; trace = recorded effect "
    "sequence; distinct non-trivial = distinct (configuration, fault) points whose trace contains at least one effect or an abort"
)
ASSUMPTIONS = [
    "VCS and hooks observed at bumpver.vcs.sp / bumpver.hooks.sp (every child process goes through them)",
    "git status text in porcelain v1 format; hg status in `hg status -umard` format",
]

TRI = (None, True, False)
HOOK = ("absent", "ok", "fails", "killed")  # killed: the hook process dies from a signal (negative return code)
TREES_GIT = ("clean", "unrelated-modified", "unrelated-untracked", "pattern-staged", "pattern-untracked")
STATUS = {
    "clean": [],
    "unrelated-modified": ["M  other.txt"],
    "unrelated-untracked": ["?? new.txt"],
    "pattern-staged": ["M  a.txt"],
    "pattern-untracked": ["?? a.txt"],
}
HG_STATUS = {"clean": [], "unrelated-modified": ["M other.txt"], "pattern-staged": ["M a.txt"]}


def lattice(tier, seed):
    """Yield configuration points (dicts)."""
    cfgs = list(itertools.product((False, True), repeat=3))  # commit, tag, push in the config file
    if tier == "thorough":
        clis = list(itertools.product(TRI, repeat=3))
        hooks = list(itertools.product(HOOK, HOOK))
        remotes = ("upstream", "url", None)
        kinds = ("git", "hg")
    else:
        clis = [(None, None, None)] + [tuple(v if i == j else None for i in range(3)) for j in range(3) for v in (True, False)]
        # one fixed slice of the pairwise tri-state combinations per seed (the thorough tier has all 27)
        pairs = [c for c in itertools.product(TRI, repeat=3) if sum(x is not None for x in c) >= 2]
        clis += pairs[seed % 5 :: 5]
        hooks = [("absent", "absent"), ("ok", "ok"), ("fails", "ok"), ("ok", "fails"), ("killed", "ok"), ("ok", "killed")]
        remotes = ("upstream", None)
        kinds = ("git",)
    for kind in kinds:
        trees = TREES_GIT if kind == "git" else tuple(HG_STATUS)
        for cfg, cli, hk, tree, allow, tagmsg, remote, dry, fetch in itertools.product(
            cfgs, clis, hooks, trees, (False, True), ("empty", "set"), remotes, (False, True), (True, False)
        ):
            yield dict(kind=kind, cfg=cfg, cli=cli, hooks=hk, tree=tree, allow_dirty=allow, tagmsg=tagmsg, remote=remote,
                       dry=dry, fetch=fetch, variant="plain")
    # variants that take other paths to the tag list: --ignore-vcs-tag + --set-version, tag_scope = branch
    for kind in kinds:
        for cfg, cli0, remote, dry, fetch, variant in itertools.product(
            cfgs, (None, True, False), ("upstream", None), (False, True), (True, False), ("ignore+set-version", "scope-branch", "ignore", "hooks-via-cli", "hooks-via-cli-failing", "gitfile", "many-in-dir")
        ):
            if variant == "gitfile" and kind != "git":
                continue
            yield dict(kind=kind, cfg=cfg, cli=(cli0, None, None), hooks=("fails", "ok") if variant == "hooks-via-cli-failing" else ("ok", "ok"),
                       tree="clean", allow_dirty=False, tagmsg="set", remote=remote, dry=dry, fetch=fetch, variant=variant)
    if tier != "thorough":
        # a thin hg slice in the quick tier
        for cfg, hk, dry, fetch in itertools.product(cfgs, [("ok", "ok"), ("fails", "ok")], (False, True), (True, False)):
            yield dict(kind="hg", cfg=cfg, cli=(None, None, None), hooks=hk, tree="clean", allow_dirty=False, tagmsg="set",
                       remote="url", dry=dry, fetch=fetch, variant="plain")


def bounds(tier, seed):
    n = sum(1 for _ in lattice(tier, seed))
    return {"configuration_points": n, "fault_positions": "every effect command and the status query of every plain configuration with "
            "CLI tri-states unset and hooks ok/ok" , "tier_lattice": "full product" if tier == "thorough" else "one tri-state at a time + slice of pairs"}


def explore(tier, seed):
    pts = list(lattice(tier, seed))
    chunks = [("cfg", part) for part in pool.split(pts, pool.NPROC * 6)]
    fault_pts = [p for p in pts if p["cli"] == (None, None, None) and p["hooks"] == ("ok", "ok") and p["variant"] == "plain"]
    chunks += [("fault", part) for part in pool.split(fault_pts, pool.NPROC * 2)]
    conf = [p for p in pts if p["kind"] == "git" and p["variant"] == "plain" and p["cli"] == (None, None, None) and p["tagmsg"] == "set"
            and not p["allow_dirty"] and p["hooks"] in (("ok", "ok"), ("fails", "ok"), ("absent", "absent"))]
    chunks += [("seam", part) for part in pool.split(conf, 16)]
    loc = [p for p in conf if p["cfg"] == (True, True, True) and p["hooks"] == ("ok", "ok") and p["tree"] == "clean" and not p["dry"]]
    chunks += [("locale", part) for part in pool.split(loc, 4)]
    return pool.run_chunks(run_chunk, chunks)


def effective(p):
    """(error, commit, tag, push) after merging CLI flags into the config, as the property states it."""
    c, t, pu = p["cfg"]
    if (t or pu) and not c:
        return ("config", False, False, False)  # tag/push require commit: configuration rejected
    cc, ct, cp = p["cli"]
    if cc is False and (ct or cp):
        return ("cli", False, False, False)
    if cc is not None:
        c = cc
    if not c and (ct or cp):
        return ("cli", False, False, False)
    if ct is not None:
        t = ct
    if cp is not None:
        pu = cp
    return (None, c, t and c, pu and c)


def build(p):
    c, t, pu = p["cfg"]
    lines = ["[bumpver]", 'current_version = "1.2.3"', 'version_pattern = "MAJOR.MINOR.PATCH"',
             f"commit = {str(c).lower()}", f"tag = {str(t).lower()}", f"push = {str(pu).lower()}",
             'tag_message = ""' if p["tagmsg"] == "empty" else 'tag_message = "release {new_version}"']
    via_cli = p["variant"].startswith("hooks-via-cli")
    if p["hooks"][0] != "absent" and not via_cli:
        lines.append('pre_commit_hook = "pre.sh"')
    if p["hooks"][1] != "absent" and not via_cli:
        lines.append('post_commit_hook = "post.sh"')
    if p["variant"] == "scope-branch":
        lines.append('tag_scope = "branch"')
    lines += ["", "[bumpver.file_patterns]", '"bumpver.toml" = [\'current_version = "{version}"\']', '"a.txt" = ["ver={version};"]']
    many = {}
    if p["variant"] == "many-in-dir":
        # a glob that expands to many files of ONE directory, next to files of that directory that are not configured
        lines.append('"docs/page_*.md" = ["ver={version};"]')
        many = {f"docs/page_{i:02d}.md": b"ver=1.2.3;\n" for i in range(MANY)}
        many["docs/notes.txt"] = b"ver=1.2.3;\n"
        many["docs/sub/page_00.md"] = b"ver=1.2.3;\n"
    lines.append("")
    files = {"bumpver.toml": "\n".join(lines).encode(), "a.txt": b"ver=1.2.3;\n", "pre.sh": b"#!/bin/sh\n", "post.sh": b"#!/bin/sh\n",
             "other.txt": b"x\n"}
    files.update(many)
    return files


MANY = 14


def configured_paths(p):
    return sorted(["bumpver.toml", "a.txt"] + ([f"docs/page_{i:02d}.md" for i in range(MANY)] if p["variant"] == "many-in-dir" else []))


def args_of(p):
    a = ["update"]
    if p["variant"] in ("ignore+set-version",):
        a += ["--ignore-vcs-tag", "--set-version", "1.2.4"]
    elif p["variant"] == "ignore":
        a += ["--ignore-vcs-tag", "--patch"]
    else:
        a += ["--patch"]
    for flag, v in zip(("commit", "tag-commit", "push"), p["cli"]):
        if v is True:
            a.append("--" + flag)
        elif v is False:
            a.append("--no-" + flag)
    if p["variant"].startswith("hooks-via-cli"):
        a += ["--pre-commit-hook", "pre.sh", "--post-commit-hook", "post.sh"]
    if p["allow_dirty"]:
        a.append("--allow-dirty")
    if p["dry"]:
        a.append("--dry")
    a.append("--fetch" if p["fetch"] else "--no-fetch")
    return a


REAL_STDERR = {
    "tag": "fatal: tag '1.2.4' already exists\n",
    "commit": "On branch main\nnothing to commit, working tree clean\n", "push": "error: failed to push some refs to 'origin'\nEverything up-to-date\n",
    "status": "fatal: not a git repository (or any of the parent directories): .git\n", "add": "fatal: pathspec did not match any files\n",
}


def is_preset(p):
    return h64(sorted((k, str(v)) for k, v in p.items())) % 2 == 0


class preset_env:
    def __init__(self, p):
        self.on = is_preset(p)

    def __enter__(self):
        self.saved = {k: os.environ.get(k) for k in ("BUMPVER_OLD_VERSION", "BUMPVER_NEW_VERSION")}
        if self.on:
            os.environ["BUMPVER_OLD_VERSION"], os.environ["BUMPVER_NEW_VERSION"] = "0.0.7", "0.0.8"

    def __exit__(self, *exc):
        for k, v in self.saved.items():
            if v is None:
                os.environ.pop(k, None)
            else:
                os.environ[k] = v
        return False


def execute(p, fail=None):
    files = build(p)
    world.clear_dir(".")
    world.write_tree(files)
    world.mark_repo(p["kind"], as_file=p["variant"] == "gitfile")  # gitfile: `.git` is a file (linked work tree, separate git dir)
    hooks = {}
    for name, mode in zip(("pre.sh", "post.sh"), p["hooks"]):
        if mode != "absent":
            hooks[name] = {"ok": (0, b"hook output\n", b""), "fails": (3, b"", b"hook failed\n"), "killed": (-15, b"partial\n", b"")}[mode]
    status = (STATUS if p["kind"] == "git" else HG_STATUS)[p["tree"]]

    def probe():
        with open("a.txt", "rb") as f:
            return f.read()

    fake = fakevcs.install(fakevcs.FakeVCS(p["kind"], tags_all=["1.2.1", "0.9.0"], status=status, remote=p["remote"], hooks=hooks,
                                           fail=fail, files_probe=probe))
    # (for every other point the variables the hooks receive are ALREADY set in bumpver's own environment, as they are when bumpver is
    #  started from a hook of another bumpver run or after a CI step exported them: the hooks must see this update's versions)
    try:
        with preset_env(p):
            o = world.cli(*args_of(p))
    finally:
        fakevcs.uninstall()
    after = world.read_tree(".")
    return o, fake, files, after


def expected_effects(p, failed_effect=None):
    """The effect sequence the property prescribes (list of names; 'add' stands for the block of add commands)."""
    err, c, t, pu = effective(p)
    seq = []
    outcome = "ok"
    may_fetch = p["fetch"] and p["remote"] is not None
    if err == "config":
        return [], "rejected", False
    if err == "cli":
        return [], "rejected", False
    fetch_required = may_fetch and p["variant"] not in ("ignore", "ignore+set-version")
    if p["dry"]:
        return [], "ok", may_fetch
    if not c:
        return [], "ok", may_fetch
    dirty = p["tree"] != "clean"
    pattern_dirty = p["tree"].startswith("pattern")
    only_untracked_unrelated = p["tree"] == "unrelated-untracked"
    if p["kind"] == "git":
        if pattern_dirty or (dirty and not only_untracked_unrelated and not p["allow_dirty"]):
            return [], "abort", may_fetch
    else:
        if pattern_dirty or (dirty and not p["allow_dirty"]):
            return [], "abort", may_fetch
    if p["hooks"][0] != "absent":
        seq.append("hook:pre.sh")
        if p["hooks"][0] in ("fails", "killed"):
            return seq, "abort", may_fetch
    seq += ["add", "commit"]
    if p["hooks"][1] != "absent":
        seq.append("hook:post.sh")
        if p["hooks"][1] in ("fails", "killed"):
            return seq, "abort", may_fetch
    if t:
        seq.append("tag")
    if pu and p["remote"] is not None:
        seq.append("push")
    return seq, "ok", may_fetch


def collapse(names):
    out = []
    for n in names:
        if n == "add" and out and out[-1] == "add":
            continue
        out.append(n)
    return out


def judge(st, p, o, fake, files, after, fail=None):
    exp, outcome, may_fetch = expected_effects(p)
    got_all = fake.effect_names()
    fetches = [n for n in got_all if n == "fetch"]
    got = collapse([n for n in got_all if n != "fetch"])
    case = {"point": {k: (list(v) if isinstance(v, tuple) else v) for k, v in p.items()}, "args": args_of(p), "fail": list(fail) if fail else None}
    ctx = f"{p['kind']}:{'dry' if p['dry'] else 'real'}"

    def bad(sig, **detail):
        st.outcomes["violation"] += 1
        st.violation(f"C10:{sig}", case, dict(detail, effects=got_all, expected=exp, exit=o.exit, crashed=o.crashed))

    # fetch: only with --fetch and a remote; never with --no-fetch; never after another effect
    if fetches and not may_fetch:
        bad(f"fetch-although-{'no-fetch' if not p['fetch'] else 'no-remote'}:{p['variant']}:{ctx}")
    if fetches and got_all.index("fetch") != 0:
        bad(f"fetch-after-other-effects:{ctx}")
    if fail is None:
        if got != exp:
            # name the first deviation
            i = 0
            while i < min(len(got), len(exp)) and got[i] == exp[i]:
                i += 1
            extra = got[i] if i < len(got) else None
            missing = exp[i] if i < len(exp) else None
            if extra is not None and (missing is None or extra not in exp[i:]):
                bad(f"unexpected-effect:{extra}:{outcome if outcome != 'ok' else 'enabled=' + _enabled(p)}:{ctx}")
            else:
                bad(f"missing-or-misordered-effect:{missing}:{ctx}")
        want_exit0 = outcome == "ok"
        if (o.exit == 0) != want_exit0:
            bad(f"exit-code:{'expected-failure' if not want_exit0 else 'expected-success'}:{outcome}:{ctx}")
        # files: rewritten iff the run got past the dirty check and is not dry / rejected
        rewritten = after.get("a.txt") != files["a.txt"]
        should_rewrite = not p["dry"] and outcome != "rejected" and not (outcome == "abort" and not exp)
        if rewritten and not should_rewrite:
            bad(f"files-rewritten-although-{'dry' if p['dry'] else outcome}:{ctx}")
        if should_rewrite and outcome == "ok" and not rewritten:
            bad(f"files-not-rewritten:{ctx}")
        # "stage configured files": whatever way the staging commands are grouped, the paths they name are the configured files
        staged = sorted(os.path.normpath(a) for e in fake.effects() if e["type"] == "cmd" and e["name"] == "add"
                        for a in e["argv"][2:] if not a.startswith("-"))
        if "add" in got and staged != configured_paths(p):
            want = configured_paths(p)
            bad(f"staged-paths-are-not-the-configured-files:{p['variant']}:{ctx}",
                not_configured=sorted(set(staged) - set(want))[:5], not_staged=sorted(set(want) - set(staged))[:5])
        # the rewrite happens before the first hook / add
        for e in fake.effects():
            if e["type"] == "hook" or e.get("name") in ("add", "commit"):
                if e.get("files") == files["a.txt"]:
                    bad(f"effect-before-rewrite:{e.get('name')}:{ctx}")
                break
        # hook environment
        for e in fake.effects():
            if e["type"] == "hook":
                if e["env"].get("BUMPVER_OLD_VERSION") != o.old_version or e["env"].get("BUMPVER_NEW_VERSION") != o.new_version:
                    bad(f"hook-env:{e.get('name')}:{ctx}", env=e["env"], announced=[o.old_version, o.new_version])
        st.outcomes[f"{outcome}:{'+'.join(exp) or 'no-effects'}"] += 1
    else:
        # after an injected failure: exit != 0 and no later effect
        names = [e for e in fake.log if (e["type"] == "hook" or e["kind"] == "effect" or e["name"] == "status")]
        idx = next((i for i, e in enumerate(names) if not e["ok"]), None)
        if idx is None:
            st.counters["fault_not_reached"] += 1
            return
        later = [(e.get("name")) for e in names[idx + 1 :] if e["type"] == "hook" or e["kind"] == "effect"]
        if later:
            bad(f"effect-after-failed-step:{fail[0]}->{later[0]}:{ctx}", later=later)
        if o.exit == 0:
            bad(f"exit-0-after-failed-step:{fail[0]}:{ctx}")
        st.outcomes[f"fault:{fail[0]}:stopped"] += 1
    st.validated += 1


def _enabled(p):
    _e, c, t, pu = effective(p)
    return "".join(ch for ch, on in zip("ctp", (c, t, pu)) if on) or "none"


def seam_conformance(st, p, base):
    """The same configuration point served (a) by the in-process fake and (b) by fake executables first on PATH:
    the issued command traces must be identical, otherwise the seam does not see every child process."""
    o1, fake, files, _after = execute(p)
    want = []
    for e in fake.log:
        if e["type"] == "hook":
            want.append(["HOOK", os.path.basename(e["path"]), e["env"].get("BUMPVER_OLD_VERSION"), e["env"].get("BUMPVER_NEW_VERSION")])
        else:
            want.append(e["argv"])
    fake_dir, bin_dir = os.path.join(base, "fake"), os.path.join(base, "bin")
    world.clear_dir(".")
    world.write_tree(files)
    os.mkdir(".git")
    fakevcs.path_fake_setup(fake_dir, bin_dir, tags_all=["1.2.1", "0.9.0"], status=STATUS[p["tree"]], remote=p["remote"])
    for name, mode in zip(("pre.sh", "post.sh"), p["hooks"]):
        if mode != "absent":
            fakevcs.path_fake_hook(name, 0 if mode == "ok" else 3)
    old_path, old_fd = os.environ.get("PATH", ""), os.environ.get("FAKE_DIR")
    os.environ["PATH"] = bin_dir + os.pathsep + old_path
    os.environ["FAKE_DIR"] = fake_dir
    try:
        with preset_env(p):
            o2 = world.cli(*args_of(p))
    finally:
        os.environ["PATH"] = old_path
        if old_fd is None:
            os.environ.pop("FAKE_DIR", None)
        else:
            os.environ["FAKE_DIR"] = old_fd
    got = fakevcs.path_fake_trace(fake_dir)
    st.evaluations += 2
    st.observe((sorted((k, str(v)) for k, v in p.items()), o1.exit, o2.exit, got))
    if got != want or (o1.exit == 0) != (o2.exit == 0):
        raise pool.HarnessError(
            "seam conformance failed: child processes seen through PATH differ from those seen through bumpver.vcs.sp/bumpver.hooks.sp "
            f"for {args_of(p)}: path={got} seam={want} exits={o2.exit}/{o1.exit}")
    st.outcomes["seam-conformance:identical-traces"] += 1


def ascii_locale(st, p, base):
    """The same configuration point run as `python -m bumpver` in a child process whose locale is plain ASCII (LC_ALL=C, UTF-8 mode off),
    with fake executables on PATH: the issued commands must be those of the in-process run (git's output contains a non-ASCII branch
    name; nothing in the sequence of steps may depend on the locale)."""
    import subprocess as sp

    o1, fake, files, _after = execute(p)
    want = []
    for e in fake.log:
        if e["type"] == "hook":
            want.append(["HOOK", os.path.basename(e["path"]), e["env"].get("BUMPVER_OLD_VERSION"), e["env"].get("BUMPVER_NEW_VERSION")])
        else:
            want.append(e["argv"])
    fake_dir, bin_dir = os.path.join(base, "fake"), os.path.join(base, "bin")
    world.clear_dir(".")
    world.write_tree(files)
    os.mkdir(".git")
    fakevcs.path_fake_setup(fake_dir, bin_dir, tags_all=["1.2.1", "0.9.0"], status=STATUS[p["tree"]], remote=p["remote"])
    for name, mode in zip(("pre.sh", "post.sh"), p["hooks"]):
        if mode != "absent":
            fakevcs.path_fake_hook(name, 0 if mode == "ok" else 3)
    env = dict(os.environ, LC_ALL="C", LANG="C", PYTHONUTF8="0", PYTHONCOERCECLOCALE="0", FAKE_DIR=fake_dir,
               PATH=bin_dir + os.pathsep + os.environ.get("PATH", ""), PYTHONPATH=os.environ.get("BUMPVER_SRC", "/repo/src"), PYTHONDONTWRITEBYTECODE="1")
    if is_preset(p):
        env.update(BUMPVER_OLD_VERSION="0.0.7", BUMPVER_NEW_VERSION="0.0.8")
    else:
        env.pop("BUMPVER_OLD_VERSION", None)
        env.pop("BUMPVER_NEW_VERSION", None)
    r = sp.run([sys.executable, "-m", "bumpver"] + args_of(p), env=env, stdout=sp.PIPE, stderr=sp.PIPE)
    got = fakevcs.path_fake_trace(fake_dir)
    st.evaluations += 2
    st.transitions += 1
    st.validated += 1
    case = {"point": {k: (list(v) if isinstance(v, tuple) else v) for k, v in p.items()}, "args": args_of(p), "ascii_locale": True}
    st.observe((sorted((k, str(v)) for k, v in p.items()), "ascii-locale", r.returncode, got))
    st.state("ascii-locale", sorted((k, str(v)) for k, v in p.items()))
    st.nontriv("ascii-locale", sorted((k, str(v)) for k, v in p.items()))
    if got != want or (o1.exit == 0) != (r.returncode == 0):
        st.outcomes["violation"] += 1
        first = next((i for i, (a, b) in enumerate(zip(got, want)) if a != b), min(len(got), len(want)))
        st.violation(f"C10:steps-differ-under-an-ascii-locale:{p['remote']}", case,
                     {"exit": r.returncode, "exit_utf8": o1.exit, "first_difference_at": first, "issued": got[first:first + 3], "expected": want[first:first + 3],
                      "stderr": r.stderr.decode("utf-8", "replace")[-300:]})
    else:
        st.outcomes["ascii-locale:same-steps"] += 1


def run_chunk(chunk):
    import datetime as dt

    kind, pts = chunk
    st = Stats()
    world.set_today(dt.date(2033, 3, 3))
    d = pool.fresh_dir("c10")
    os.chdir(d)
    if kind == "seam":
        base = pool.fresh_dir("c10seam")
        for p in pts:
            seam_conformance(st, p, base)
        os.chdir("/")
        return st
    if kind == "locale":
        base = pool.fresh_dir("c10loc")
        for p in pts:
            ascii_locale(st, p, base)
        os.chdir("/")
        return st
    for p in pts:
        if kind == "cfg":
            o, fake, files, after = execute(p)
            st.evaluations += 1
            st.transitions += 1
            st.state(sorted((k, str(v)) for k, v in p.items()))
            st.observe((sorted((k, str(v)) for k, v in p.items()), o.exit, fake.effect_names()))
            if fake.effect_names() or o.exit != 0:
                st.nontriv(sorted((k, str(v)) for k, v in p.items()))
            judge(st, p, o, fake, files, after)
            if p["cfg"] == (True, True, True) and p["cli"] == (None, None, None) and p["hooks"] == ("ok", "ok") and p["tree"] == "clean" \
                    and not p["dry"] and p["remote"] == "upstream" and p["variant"] == "plain" and p["tagmsg"] == "set" and not p["allow_dirty"]:
                st.sample({"point": {k: str(v) for k, v in p.items()}, "args": args_of(p), "trace": [e["argv"] if e["type"] == "cmd" else ["HOOK", e["path"], e["env"]] for e in fake.log]})
        else:
            o, fake, files, after = execute(p)
            targets = []
            seen = {}
            for e in fake.log:
                if e["type"] == "cmd" and (e["kind"] == "effect" or e["name"] == "status"):
                    n = seen.get(e["name"], 0)
                    seen[e["name"]] = n + 1
                    targets.append((e["name"], n))
            # every fault once with a neutral message and once with what the real tool prints for the usual cause of that failure
            for fail in targets + [t + (REAL_STDERR[t[0]],) for t in targets if t[0] in REAL_STDERR]:
                o2, fake2, files2, after2 = execute(p, fail=fail)
                st.evaluations += 1
                st.transitions += 1
                st.state(sorted((k, str(v)) for k, v in p.items()), fail)
                st.nontriv(sorted((k, str(v)) for k, v in p.items()), fail)
                st.observe((sorted((k, str(v)) for k, v in p.items()), fail, o2.exit, fake2.effect_names()))
                judge(st, p, o2, fake2, files2, after2, fail=fail)
    os.chdir("/")
    return st


def replay(case, st):
    import datetime as dt

    world.set_today(dt.date(2033, 3, 3))
    d = pool.fresh_dir("c10r")
    os.chdir(d)
    p = {k: (tuple(v) if isinstance(v, list) else v) for k, v in case["point"].items()}
    fail = tuple(case["fail"]) if case.get("fail") else None
    o, fake, files, after = execute(p, fail=fail)
    st.observe((o.exit, fake.effect_names()))
    judge(st, p, o, fake, files, after, fail=fail)
    os.chdir("/")
