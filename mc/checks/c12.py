"""C12 - messages, tag names and paths reach the VCS verbatim.

Alphabet {a, space, ', ", backslash, $, backtick, -, ;, newline, e-acute, {new_version}} (+ OLD, NEW on the command
line): ALL strings up to length 3 (quick) / 4 (thorough) as commit message (config, -c), tag message (config,
--tag-message); the path-safe subset as a configured file name; single characters inside the version pattern (tag
name).  git and hg command sets at the subprocess seam, real git for every string up to length 2.
Oracle (differential, does not pin option spelling): the effect log for value m must equal the log of the same run
with the benign value, with exactly the one argument carrying the benign text replaced by the expected text.
"""
import itertools
import os
import re
import subprocess as sp

from .. import fakevcs, pool, world
from ..stats import Stats, h64

ID = "C12"
LEVEL = "model_checking"
MIN_OUTCOMES = 3
MANIFEST = {
    'text': "All strings over the stated 15/17-symbol alphabet (quotes, backslash, $, backtick, %, newline, non-ASCII incl. a decomposed accent and U+2126 that change under Unicode normalisation, placeholders, OLD/NEW) up to length 3/4 in every slot (commit and tag message via TOML config, via setup.cfg and via CLI, file name, version-pattern literal) are run through the real `update` with a fake git/hg at the subprocess seam; the recorded argv vectors must equal those of the benign baseline run with only the one argument replaced by the expected text (hg: the --logfile content). Twelve whole messages in the shapes people use (`[ci/skip] ...`, `[skip ci]`, `chore(release): ...`, branch-listing look-alikes, multi-line bodies) run in repositories with an upstream, with only a remote URL and without any remote - the fake answers `git branch -vv` with the subject of the commit just made, as git does. A project whose newest tag is ahead of the config ({old_version}/OLD must be the tag's version). Projects with 330 configured files / 60 paths of ~150 characters / 40 files of one directory: the multiset of paths handed to `git add` equals the configured files however the commands are grouped. Every string up to length 2 is additionally committed and tagged with a real git and read back from the objects.",
    'note': 'templates with braces other than the documented placeholders are outside the statement; how real git/hg interpret a leading dash is not covered (argv-level property)',
    'technique': 'exhaustive enumeration of a bounded input alphabet on the real code, differential trace oracle at the subprocess seam + real git',
}
RULE = (
    "one evaluation = one `update` run for one (slot, string, vcs); distinct non-trivial = distinct (slot, string) containing "
    "at least one non-letter symbol"
)
ASSUMPTIONS = ["expected message = Python str.format of the template with the six documented placeholders; OLD/NEW shorthand by word boundary"]

# "e\u0301" (decomposed) and U+2126 OHM SIGN (singleton decomposition) change under Unicode normalisation; "é" does not
SIGMA = ["a", " ", "'", '"', "\\", "$", "`", "-", ";", "\n", "é", "{new_version}", "%", "e\u0301", "\u2126"]
CLI_EXTRA = ["OLD", "NEW"]
PATH_SIGMA = ["a", " ", "'", '"', "$", "`", "-", ";", "é", "\\", "e\u0301", "\u2126"]
PATTERN_CHARS = ["'", "$", "`", ";", "é", "*", "?", "(", "&", "#", "~", "!"]
MESSAGE_IDIOMS = [
    "[ci/skip] bump {old_version} -> {new_version}", "[skip ci] release {new_version}", "[bot/bumpver] {new_version}", "chore(release): {new_version} [origin/main]",
    "[origin/main: ahead 1] {new_version}", "* main 89abcde [fork/main] {new_version}", "release/{new_version}", "Merge branch 'release/{new_version}' into main",
    "fix: bump (closes #12)", "{new_version}", "literal {{new_version}} and {{old_version}}, real {new_version}", "{{\"version\": \"{new_version}\"}}", "v{new_version} / {new_version_pep440}", "bump\n\n[ci/skip]\nSigned-off-by: A <a@example.invalid>",
    # multi-line bodies whose continuation lines are ALL indented, or carry tabs (a shell snippet, a nested list): the indentation is message text
    "release {new_version}\n\n    $ pip install demo=={new_version}\n    $ demo --version", "bump {new_version}\n\n\t* item\n\t\t- nested {old_version}\n\tend",
]
BENIGN = "Zq9"
OLD, NEW = "1.2.3", "1.2.4"
KW = dict(new_version=NEW, old_version=OLD, NEW_VERSION=NEW, OLD_VERSION=OLD, new_version_pep440=NEW, old_version_pep440=OLD)
SLOTS = ("commit-config", "commit-cli", "tag-config", "tag-cli", "path", "pattern-literal", "commit-config-ini", "tag-config-ini")


def hexs(syms):
    return "+".join("0x" + s.encode("utf-8").hex() if (len(s) == 1 or not s.isascii()) else s for s in syms)


def expected_text(slot, value):
    if slot.endswith("cli"):
        value = re.sub(r"\b(OLD|NEW)\b", r"{\1_VERSION}", value)
    if slot in ("path",):
        return value
    return value.format(**KW)


def toml_basic(s):
    out = []
    for ch in s:
        if ch == "\\":
            out.append("\\\\")
        elif ch == '"':
            out.append('\\"')
        elif ch == "\n":
            out.append("\\n")
        else:
            out.append(ch)
    return '"' + "".join(out) + '"'


def toml_key(s):
    # literal (single-quoted) keys carry backslashes verbatim; the `toml` package mis-reads escaped backslashes in keys
    if "'" not in s and "\n" not in s:
        return "'" + s + "'"
    return toml_basic(s)


def build(slot, value, kind):
    commit_msg = "bump {old_version} -> {new_version}"
    tag_msg = "release {new_version}"
    path = "a.txt"
    pattern = "MAJOR.MINOR.PATCH"
    old = OLD
    args = ["update", "--patch", "--no-fetch", "--commit", "--tag-commit", "--push"]
    if slot in ("commit-config", "commit-config-ini"):
        commit_msg = value
    elif slot in ("tag-config", "tag-config-ini"):
        tag_msg = value
    elif slot == "commit-cli":
        args += ["-c", value]
    elif slot == "tag-cli":
        args += ["--tag-message", value]
    elif slot == "path":
        path = "d/" + value + ".txt"
    elif slot == "pattern-literal":
        pattern = "MAJOR.MINOR.PATCH-x" + value + "y"
        old = OLD + "-x" + value + "y"
    cfg = "\n".join([
        "[bumpver]", f"current_version = {toml_basic(old)}", f"version_pattern = {toml_basic(pattern)}",
        f"commit_message = {toml_basic(commit_msg)}", f"tag_message = {toml_basic(tag_msg)}", "commit = true", "tag = true", "push = true",
        "", "[bumpver.file_patterns]", '"bumpver.toml" = [\'current_version = "{version}"\']', f"{toml_key(path)} = [\"ver={{version}};\"]", "",
    ])
    if slot.endswith("-ini"):
        # the same configuration as setup.cfg; values that INI syntax cannot carry are not generated
        if value != value.strip() or "\n" in value or value[:1] in "#;" or value == "" or value[:1] in "'\"" or value[-1:] in "'\"":
            return None, args, path  # (in setup.cfg quotes around a value are the quoting convention, not part of it)
        ini = "\n".join([
            "[bumpver]", f"current_version = {old}", f"version_pattern = {pattern}", f"commit_message = {commit_msg}",
            f"tag_message = {tag_msg}", "commit = True", "tag = True", "push = True", "", "[bumpver:file_patterns]",
            "setup.cfg =", "    current_version = {version}", f"{path} =", "    ver={version};", "",
        ])
        return {"setup.cfg": ini.encode("utf-8"), path: ("ver=" + old + ";\n").encode("utf-8")}, args, path
    files = {"bumpver.toml": cfg.encode("utf-8"), path: ("ver=" + old + ";\n").encode("utf-8")}
    import toml as _toml

    try:
        parsed = _toml.loads(cfg)["bumpver"]
        ok = (parsed["commit_message"] == commit_msg and parsed["tag_message"] == tag_msg and parsed["version_pattern"] == pattern
              and list(parsed["file_patterns"]) == ["bumpver.toml", path])
    except Exception:
        ok = False
    if not ok:
        return None, args, path  # the `toml` package cannot express this value: not a C12 matter
    return files, args, path


def run(slot, value, kind, real_git=False, remote="upstream"):
    files, args, path = build(slot, value, kind)
    if files is None:
        return None
    world.clear_dir(".")
    try:
        world.write_tree(files)
    except (OSError, ValueError):
        return None
    if real_git:
        return None
    os.mkdir("." + kind)
    fake = fakevcs.install(fakevcs.FakeVCS(kind, tags_all=["1.2.1"], status=[], remote=remote))
    try:
        o = world.cli(*args)
    finally:
        fakevcs.uninstall()
    return o, fake, path


def normalised_effects(fake):
    out = []
    for e in fake.effects():
        if e["type"] == "hook":
            out.append(["HOOK", e["path"]])
            continue
        argv = list(e["argv"])
        if "--logfile" in argv:
            i = argv.index("--logfile")
            argv[i + 1] = "<LOGFILE:" + (e.get("logfile_content") or b"").decode("utf-8", "replace") + ">"
        out.append(argv)
    # the add commands form an unordered block (iteration order of a set of paths)
    i = 0
    while i < len(out):
        j = i
        while j < len(out) and len(out[j]) > 1 and out[j][1] == "add":
            j += 1
        out[i:j] = sorted(out[i:j])
        i = max(j, i + 1)
    return out


def substitute(baseline, benign_text, new_text, substring=False):
    """Baseline effect log with every argument that IS the benign text (or the logfile marker of it) replaced.
    substring=True (version-pattern literal): the version occurs inside messages too, so the benign token is replaced
    wherever it occurs."""
    out = []
    for argv in baseline:
        row = []
        for a in argv:
            if substring:
                row.append(a.replace(benign_text, new_text))
            elif a == benign_text:
                row.append(new_text)
            elif a == "<LOGFILE:" + benign_text + ">":
                row.append("<LOGFILE:" + new_text + ">")
            else:
                row.append(a)
        out.append(row)
    i = 0
    while i < len(out):
        j = i
        while j < len(out) and len(out[j]) > 1 and out[j][1] == "add":
            j += 1
        out[i:j] = sorted(out[i:j])
        i = max(j, i + 1)
    return out


def benign_texts(slot):
    if slot == "path":
        return "d/" + BENIGN + ".txt"
    if slot == "pattern-literal":
        return NEW + "-x" + BENIGN + "y"
    return BENIGN


def value_text(slot, value):
    if slot == "path":
        return "d/" + value + ".txt"
    if slot == "pattern-literal":
        return NEW + "-x" + value + "y"
    return expected_text(slot, value)


def check_value(st, slot, syms, kind, baseline, failing_single=None, remote="upstream"):
    value = "".join(syms)
    if slot == "path" and (value.strip() != value or value in (".", "..") or value.endswith("\\")):
        st.counters["paths_skipped_not_portable"] += 1
        return None
    r = run(slot, value, kind, remote=remote)
    if r is None:
        st.counters["inputs_skipped_cannot_be_written"] += 1
        return None
    o, fake, path = r
    st.evaluations += 1
    st.transitions += 1
    got = normalised_effects(fake)
    if slot == "pattern-literal":
        want = substitute(baseline, BENIGN, value, substring=True)
    else:
        want = substitute(baseline, benign_texts(slot), value_text(slot, value))
    case = {"slot": slot, "symbols": list(syms), "vcs": kind}
    if remote != "upstream":
        case["remote"] = remote
    st.observe((slot, syms, kind, remote, o.exit, o.crashed, got))
    st.state(slot, kind, value, remote)
    if any(len(s) == 1 and not s.isalpha() for s in syms):
        st.nontriv(slot, value)
    problem = None
    if o.crashed:
        problem = ("crash", {"crashed": o.crashed, "effects": got})
    elif o.exit != 0:
        problem = ("refused", {"exit": o.exit, "log": o.log[-3:], "effects": got})
    elif len(got) != len(want) or any(len(a) != len(b) for a, b in zip(got, want)):
        problem = ("argument-count-changed", {"effects": got, "expected": want})
    elif got != want:
        problem = ("argument-altered", {"effects": got, "expected": want})
    if problem is None:
        st.validated += 1
        st.outcomes[f"verbatim:{slot}"] += 1
        return None
    st.outcomes["violation"] += 1
    sig = attribute(slot, syms, failing_single) if len(syms) != 1 or len(syms[0]) <= 14 else f"C12:{slot}:message-idiom:{syms[0][:12].strip()}"
    st.violation(sig, case, dict(problem[1], kind=problem[0], value=value))
    return problem[0]


def tag_ahead(st):
    """The newest tag is ahead of the config: the bump starts from the tag, and {old_version} / OLD in the messages are that version."""
    for source in ("config", "cli"):
        cfg = "\n".join([
            "[bumpver]", 'current_version = "1.2.3"', 'version_pattern = "MAJOR.MINOR.PATCH"',
            'commit_message = "bump {old_version} -> {new_version} ({old_version_pep440})"', 'tag_message = "release {new_version}, was {old_version}"',
            "commit = true", "tag = true", "push = false", "", "[bumpver.file_patterns]", '"bumpver.toml" = [\'current_version = "{version}"\']', "",
        ])
        world.clear_dir(".")
        world.write_tree({"bumpver.toml": cfg.encode()})
        os.mkdir(".git")
        fake = fakevcs.install(fakevcs.FakeVCS("git", tags_all=["1.2.1", "1.3.0"], status=[], remote=None))
        args = ["update", "--patch", "--no-fetch"] + (["-c", "[rel] OLD -> NEW", "--tag-message", "NEW after OLD"] if source == "cli" else [])
        try:
            o = world.cli(*args)
        finally:
            fakevcs.uninstall()
        st.evaluations += 1
        st.transitions += 1
        msgs = {}
        for e in fake.effects():
            if e["type"] == "cmd" and e["name"] in ("commit", "tag"):
                # the message is whatever follows --message / -m, or is attached to them (the spelling of the option is the tool's business)
                argv = e["argv"]
                for i, a in enumerate(argv):
                    if a in ("--message", "-m") and i + 1 < len(argv):
                        msgs[e["name"]] = argv[i + 1]
                    elif a.startswith("--message="):
                        msgs[e["name"]] = a[len("--message="):]
                    elif a.startswith("-m") and len(a) > 2 and not a.startswith("--"):
                        msgs[e["name"]] = a[2:]
                if e.get("logfile_content") is not None:
                    msgs[e["name"]] = e["logfile_content"].decode("utf-8", "replace")
        want = {"commit": "bump 1.3.0 -> 1.3.1 (1.3.0)", "tag": "release 1.3.1, was 1.3.0"} if source == "config" else {"commit": "[rel] 1.3.0 -> 1.3.1", "tag": "1.3.1 after 1.3.0"}
        case = {"slot": "commit-" + source, "symbols": [], "vcs": "git", "tag_ahead": True}
        st.observe(("tag-ahead", source, o.exit, o.crashed, sorted(msgs.items())))
        st.state("tag-ahead", source)
        st.nontriv("tag-ahead", source)
        if o.exit != 0 or msgs != want:
            st.outcomes["violation"] += 1
            st.violation(f"C12:old-version-placeholder-when-the-newest-tag-is-ahead:{source}", case, {"exit": o.exit, "messages": msgs, "expected": want, "announced": [o.old_version, o.new_version]})
        else:
            st.validated += 1
            st.outcomes["verbatim:commit-" + source] += 1


def many_files(st):
    """Projects with very many configured files (330 through one glob; 60 with paths of ~150 characters, > 8,000 bytes of arguments):
    whatever way the staging commands are grouped, the paths handed to `git add` are exactly the configured files, each once."""
    shapes = {
        "330-files": [f"many/mod_{i:03d}/__init__.py" for i in range(330)],
        "60-long-paths": [f"deep/{'segment_' * 14}{i:02d}/file_with_a_rather_long_name_{i:02d}.txt" for i in range(60)],
    }
    shapes["40-in-one-directory"] = [f"docs/page_{i:02d}.md" for i in range(40)]  # (a directory must not stand in for its files)
    for name, paths in shapes.items():
        glob_key = {"330-files": "many/*/__init__.py", "60-long-paths": "deep/*/*.txt", "40-in-one-directory": "docs/page_*.md"}[name]
        cfg = "\n".join([
            "[bumpver]", 'current_version = "1.2.3"', 'version_pattern = "MAJOR.MINOR.PATCH"', "commit = true", "tag = true", "push = false",
            "", "[bumpver.file_patterns]", '"bumpver.toml" = [\'current_version = "{version}"\']', f'"{glob_key}" = ["ver={{version}};"]', "",
        ])
        files = {"bumpver.toml": cfg.encode()}
        for pth in paths:
            files[pth] = b"ver=1.2.3;\n"
        if name == "40-in-one-directory":
            files["docs/notes.txt"] = files["docs/sub/page_00.md"] = b"ver=1.2.3;\n"
        world.clear_dir(".")
        world.write_tree(files)
        os.mkdir(".git")
        fake = fakevcs.install(fakevcs.FakeVCS("git", tags_all=["1.2.1"], status=[], remote=None))
        try:
            o = world.cli("update", "--patch", "--no-fetch")
        finally:
            fakevcs.uninstall()
        st.evaluations += 1
        st.transitions += 1
        staged = []
        for e in fake.effects():
            if e["type"] == "cmd" and e["name"] == "add":
                staged += [a for a in e["argv"][2:] if not a.startswith("-")]
        want = sorted(paths + ["bumpver.toml"])
        case = {"slot": "path", "symbols": [], "vcs": "git", "many_files": name}
        st.observe((name, o.exit, o.crashed, len(staged), h64(sorted(staged))))
        st.state("many", name)
        st.nontriv("many", name)
        if o.exit != 0 or sorted(staged) != want:
            missing = sorted(set(want) - set(staged))
            extra = sorted(set(staged) - set(want))
            st.outcomes["violation"] += 1
            st.violation(f"C12:path:staged-paths-differ-from-configured-paths:{name}", case,
                         {"exit": o.exit, "crashed": o.crashed, "missing": missing[:5], "unexpected": extra[:5], "staged": len(staged), "configured": len(want)})
        else:
            st.validated += 1
            st.outcomes["verbatim:path"] += 1


def empty_template(st, slot, kind, baseline):
    """The EMPTY template, given explicitly: `--tag-message ''` / `tag_message = ""` mean a lightweight tag (README), `-c ''` an empty
    commit message argument; the configured template must not come back in its place."""
    if slot == "commit-config":
        return  # (an empty configured commit message falls back to the default message: C18's matter)
    r = run(slot, "", kind)
    if r is None:
        return
    o, fake, _path = r
    st.evaluations += 1
    st.transitions += 1
    got = normalised_effects(fake)
    want = []
    for argv in baseline:
        if slot.startswith("tag") and argv[:2] == ["git", "tag"]:
            want.append(["git", "tag", NEW])
        elif slot == "commit-cli" and argv[:2] == ["git", "commit"]:
            want.append([a if a != BENIGN else "" for a in argv])
        else:
            want.append(list(argv))
    case = {"slot": slot, "symbols": [], "vcs": kind, "empty_template": True}
    st.observe((slot, "empty", o.exit, o.crashed, got))
    st.state(slot, kind, "", "empty")
    st.nontriv(slot, "")
    if o.exit != 0 or o.crashed or got != want:
        st.outcomes["violation"] += 1
        st.violation(f"C12:{slot}:explicitly-empty-template", case, {"effects": got, "expected": want, "exit": o.exit, "crashed": o.crashed})
    else:
        st.validated += 1
        st.outcomes[f"verbatim:{slot}"] += 1


def attribute(slot, syms, failing):
    """failing = (anywhere, edge): symbols that break the slot in the middle of benign text / only at its start or end."""
    anywhere, edge = failing if failing else (set(), set())
    inner = [x for x in dict.fromkeys(syms) if x in anywhere]
    if inner:
        return f"C12:{slot}:{hexs(sorted(inner))}"
    value = "".join(syms)
    if (syms[0] in edge) or (syms[-1] in edge):
        return f"C12:{slot}:quote-or-blank-at-start-or-end"
    return f"C12:{slot}:{hexs(list(dict.fromkeys(syms)))}"


def bounds(tier, seed):
    n = 3 if tier == "quick" else 4
    return {"alphabet": SIGMA, "cli_only": CLI_EXTRA, "max_length": n, "slots": list(SLOTS), "vcs": ["git", "hg"],
            "strings_config_slots": sum(len(SIGMA) ** k for k in range(1, n + 1)),
            "strings_cli_slots": sum((len(SIGMA) + 2) ** k for k in range(1, n + 1)), "real_git_max_length": 2}


def explore(tier, seed):
    n = 3 if tier == "quick" else 4
    chunks = []
    for slot in SLOTS[:4] + SLOTS[6:]:
        alpha = SIGMA + (CLI_EXTRA if slot.endswith("cli") else [])
        for first in alpha:
            chunks.append(("strings", slot, first, n, "git"))
        chunks.append(("strings", slot, None, 2, "hg"))
    for first in PATH_SIGMA:
        chunks.append(("paths", "path", first, 3 if tier == "quick" else 4, "git"))
    chunks.append(("paths", "path", None, 2, "hg"))
    chunks.append(("pattern", "pattern-literal", None, 1, "git"))
    chunks.append(("pattern", "pattern-literal", None, 1, "hg"))
    for slot in ("commit-config", "commit-cli", "tag-config", "tag-cli"):
        chunks.append(("idioms", slot, None, 1, "git"))
    chunks.append(("manyfiles", None, None, 1, "git"))
    for part in range(8):
        chunks.append(("realgit", None, part, 2, "git"))
    return pool.run_chunks(run_chunk, chunks)


def run_chunk(chunk):
    import datetime as dt

    mode, slot, first, n, kind = chunk
    st = Stats()
    world.set_today(dt.date(2033, 3, 3))
    d = pool.fresh_dir("c12")
    os.chdir(d)
    if mode == "realgit":
        real_git(st, first)
        os.chdir("/")
        return st
    if mode == "manyfiles":
        many_files(st)
        tag_ahead(st)
        os.chdir("/")
        return st
    if mode == "idioms":
        # whole messages in the shapes people use, in repositories with an upstream, with only a remote URL, and without any remote:
        # what `git branch -vv` / `git log` print after the commit (its subject) must not change any later command of the same run
        for remote in ("upstream", "url", None):
            o, fake, _p = run(slot, BENIGN, kind, remote=remote)
            baseline = normalised_effects(fake)
            if o.exit != 0:
                raise pool.HarnessError(f"baseline run for idioms {slot}/{remote} failed: exit={o.exit} {baseline}")
            for msg in MESSAGE_IDIOMS:
                check_value(st, slot, [msg], kind, baseline, remote=remote)
            if remote == "upstream":
                empty_template(st, slot, kind, baseline)
        os.chdir("/")
        return st
    alpha = {"strings": SIGMA + (CLI_EXTRA if slot.endswith("cli") else []), "paths": PATH_SIGMA, "pattern": PATTERN_CHARS}[mode]
    o, fake, _p = run(slot, BENIGN, kind)
    baseline = normalised_effects(fake)
    if o.exit != 0 or not any(benign_texts(slot) in argv or ("<LOGFILE:" + benign_texts(slot) + ">") in argv for argv in baseline):
        raise pool.HarnessError(f"baseline run for slot {slot}/{kind} does not carry the benign value: exit={o.exit} {baseline}")
    # singles first: they name the culprit symbols for longer strings
    anywhere, edge = set(), set()
    for s in alpha:
        if check_value(Stats(), slot, ["a", s, "a"], kind, baseline) is not None:
            anywhere.add(s)
        elif check_value(Stats(), slot, [s, "a"], kind, baseline) is not None or check_value(Stats(), slot, ["a", s], kind, baseline) is not None:
            edge.add(s)
    failing = (anywhere, edge)
    firsts = alpha if first is None else [first]
    for k in range(1, n + 1):
        for rest in itertools.product(alpha, repeat=k - 1):
            for f in firsts:
                check_value(st, slot, [f] + list(rest), kind, baseline, failing)
    if first in (None, "a") and kind == "git":
        st.sample({"slot": slot, "vcs": kind, "baseline_effects": baseline, "symbols_that_fail_anywhere": sorted(failing[0]), "symbols_that_fail_at_the_edges": sorted(failing[1])})
    os.chdir("/")
    return st


def git(*args, cwd="."):
    return sp.run(["git"] + list(args), cwd=cwd, stdout=sp.PIPE, stderr=sp.PIPE, check=False)


def git_cleanup(msg):
    """git's default message cleanup for -m (whitespace mode)."""
    lines = [l.rstrip() for l in msg.split("\n")]
    while lines and lines[0] == "":
        lines.pop(0)
    while lines and lines[-1] == "":
        lines.pop()
    out = []
    for l in lines:
        if l == "" and out and out[-1] == "":
            continue
        out.append(l)
    return "\n".join(out)


def real_git(st, part):
    """Every string up to length 2 as commit message and tag message, committed and tagged by a real git."""
    strings = [[s] for s in SIGMA] + [[a, b] for a in SIGMA for b in SIGMA]
    for syms in strings[part::8]:
        value = "".join(syms)
        for slot in ("commit-config", "tag-cli"):
            exp = expected_text(slot, value)
            if git_cleanup(exp) == "":
                st.counters["real_git_skipped_empty_after_git_cleanup"] += 1
                continue
            files, args, path = build(slot, value, "git")
            if files is None:
                st.counters["inputs_skipped_toml_library_cannot_express"] += 1
                continue
            args = [a for a in args if a != "--push"] + ["--no-push"]
            world.clear_dir(".")
            world.write_tree(files)
            git("init", "-q", "-b", "main")
            git("add", "-A")
            git("commit", "-q", "-m", "init")
            o = world.cli(*args)
            st.evaluations += 1
            st.transitions += 1
            case = {"slot": slot, "symbols": list(syms), "vcs": "real-git"}
            if slot == "commit-config":
                got = git("log", "-1", "--format=%B").stdout.decode("utf-8", "replace").rstrip("\n")
            else:
                got = git("tag", "-l", "--format=%(contents)", NEW).stdout.decode("utf-8", "replace").rstrip("\n")
            st.observe((slot, syms, o.exit, got))
            if o.exit != 0 or got != git_cleanup(exp):
                st.outcomes["violation"] += 1
                sig = attribute(slot, syms, (set(), {"'", '"', " "} if slot.endswith("config") else set()))
                st.violation(sig, case, {"kind": "real-git-object", "exit": o.exit, "crashed": o.crashed, "stored": got,
                                         "expected": git_cleanup(exp), "value": value})
            else:
                st.validated += 1
                st.outcomes["real-git-object-verbatim"] += 1


def replay(case, st):
    import datetime as dt

    world.set_today(dt.date(2033, 3, 3))
    d = pool.fresh_dir("c12r")
    os.chdir(d)
    if case["vcs"] == "real-git":
        for part in range(8):
            real_git(st, part)
    else:
        remote = case.get("remote", "upstream")
        o, fake, _p = run(case["slot"], BENIGN, case["vcs"], remote=remote)
        if case.get("tag_ahead"):
            tag_ahead(st)
        elif case.get("many_files"):
            many_files(st)
        elif case.get("empty_template"):
            empty_template(st, case["slot"], case["vcs"], normalised_effects(fake))
        else:
            check_value(st, case["slot"], case["symbols"], case["vcs"], normalised_effects(fake), ({"'"}, {"'", '"', " "}), remote=remote)
    os.chdir("/")
