"""C20 - legacy {...} patterns render, read back and increase consistently.

Legacy patterns: {pycalver}, {semver}, the documented composites and all combinations of a calendar group, a
build/semver group and a release group (prefix '' / 'v').  (a) round trip on the real v1 parse/format for every
month 2000-01..2099-12 (every day for day-carrying groups) x build ids x tags; (b) bump graph: states x v1 events
(major/minor/patch/tag/pin-date/date kinds) through the real `test` body against the legacy reference bump;
(c) chains of 1,000 default bumps on {pycalver} and {semver}; (d) engine dispatch: `test`, `update --dry`, `update`
and the config loader must treat a pattern alike, and {pep440_version} occurrences written by `update` must denote
the announced version.
"""
import datetime as dt
import itertools
import os
import re

import packaging.version as pv

import bumpver.v1version as v1version
import bumpver.version as bvversion

from .. import bumpgraph as bg
from .. import pool, world
from ..ref import legacy as L
from ..stats import Stats

ID = "C20"
LEVEL = "model_checking"
MIN_OUTCOMES = 4
MANIFEST = {
    "text": "Explicit-state exploration of the legacy engine on the real code: complete date sweeps (every month / day 2000-2099) of "
    "the round trip parse -> format for every legacy pattern of the stated combination grammar; every state x every v1 event through the "
    "real `test` body compared with a reference bump (announced text or refusal), strictly-greater and plain-string order for {pycalver}; "
    "1,000-step chains; and test / update --dry / update / config loader observed side by side for engine dispatch.",
    "note": "legacy parts the statement does not list ({dom_short}, {doy_short}, {month_short}, {iso_week}, {us_week}, {BID}, {MM}..{BBBBBBB}) "
    "are not enumerated and not claimed",
    "technique": "explicit-state model checking of the legacy bump/format system on the implementation against a reference model",
}
RULE = (
    "state = (legacy pattern, version text); transition = one real `test` bump or one parse/format round trip; distinct non-trivial = "
    "distinct (pattern, version) from which some event announced a new version, or whose round trip was evaluated"
)
ASSUMPTIONS = ["legacy reference (mc/ref/legacy.py) written from the part names' documented meaning; order for non-PEP 440 strings = bumpver's key (C16)"]

CAL_GROUPS = ["", "{year}{month}", "{year}.{month}", "{yy}{month}", "{year}{month}{dom}", "{year}.{month}.{dom}", "{yy}.{month}.{dom}",
              "{year}.{doy}", "{year}d{doy}", "{year}q{quarter}", "{year}.{quarter}", "{yy}q{quarter}", "{year}"]
NUM_GROUPS = ["", ".{build_no}", "{build}", ".{MAJOR}.{MINOR}.{PATCH}"]
REL_GROUPS = ["", "{release}", "-{release_tag}"]
NAMED = ["{pycalver}", "{semver}", "v{year}{month}{build}{release}", "{year}{month}{build}{release}", "v{year}{build}{release}", "{year}{build}{release}"]
PEP_MAPPED = NAMED
# ({calver}{build}{release} is {pycalver} spelled out: no explicit mapping upstream, {pep440_version} then stands for the pycalver form)
PEP_OK = PEP_MAPPED + ["{calver}{build}{release}"]
BIDS = ["0001", "1001", "0999", "1999", "09999", "22000"]
TAGS = ["final", "alpha", "beta", "rc", "dev", "post"]
DATEKINDS = ("pin", "same", "+1d", "next-month", "next-year", "-1d", "-100d", "-400d")


def patterns(tier):
    out = list(NAMED)
    for cal, num, rel, prefix in itertools.product(CAL_GROUPS, NUM_GROUPS, REL_GROUPS, ("", "v")):
        if not cal and not num:
            continue
        n = num if cal else num.lstrip(".")
        p = prefix + cal + n + rel
        if p not in out:
            out.append(p)
    return out


def bounds(tier, seed):
    return {"patterns": len(patterns(tier)), "bids": BIDS, "tags": TAGS, "date_kinds": list(DATEKINDS),
            "round_trip_dates": "every month 2000-2099; every day 2000-2099 for day-carrying groups" if tier == "thorough" else
            "every month 2000-2099; day windows around year ends and Feb/Mar for day-carrying groups",
            "chains": {"patterns": ["{pycalver}", "{semver}"], "length": 1000 if tier == "thorough" else 200}}


def explore(tier, seed):
    pats = patterns(tier)
    chunks = [("rt", p, tier) for p in pats]
    every_cal = ["v" + cal + ".{build_no}" for cal in CAL_GROUPS if cal] + [cal + ".{MAJOR}.{MINOR}.{PATCH}{release}" for cal in CAL_GROUPS[1::3]]
    bump_pats = pats if tier == "thorough" else NAMED + every_cal + pats[len(NAMED) :: 4][seed % 2 :: 2]
    chunks += [("bump", p, tier) for p in dict.fromkeys(bump_pats)]
    chunks += [("chain", p, 1000 if tier == "thorough" else 200) for p in ("{pycalver}", "{semver}")]
    chunks += [("dispatch", p, tier) for p in NAMED + pats[len(NAMED) :: 11]]
    # (the last three: legacy patterns made only of upper-case placeholders - the engine choice of loader and commands must agree)
    chunks += [("project-chain", p, 14 if tier == "quick" else 60) for p in PEP_OK + ["{MAJOR}.{MINOR}.{PATCH}", "v{MAJOR}.{MINOR}", "r{MAJOR}"]]
    return pool.run_chunks(run_chunk, chunks)


def dates_for(pattern, tier):
    fs = L.fields(pattern)
    if "dom" in fs or "doy" in fs:
        if tier == "thorough":
            d, out = dt.date(2000, 1, 1), []
            while d.year < 2100:
                out.append(d)
                d += dt.timedelta(days=1)
            return out
        out = []
        for y in range(2000, 2100):
            for k in range(-3, 4):
                out.append(dt.date(y, 1, 1) + dt.timedelta(days=k))
            out += [dt.date(y, 2, 28), dt.date(y, 3, 1), dt.date(y, 6, 30)]
            if y % 4 == 0 and y != 2100:
                out.append(dt.date(y, 2, 29))
        return sorted(set(x for x in out if 2000 <= x.year < 2100))
    if any(f in fs for f in ("month", "quarter")):
        return [dt.date(y, m, 15) for y in range(2000, 2100) for m in range(1, 13)]
    if "year" in fs:
        return [dt.date(y, 6, 15) for y in range(2000, 2100)]
    return [dt.date(2020, 6, 15)]


def state_for(pattern, d, bid, tag, nums=(1, 2, 3)):
    fs = L.fields(pattern)
    cal = L.cal_from_date(d)
    s = {}
    for f in fs:
        if f in cal:
            s[f] = cal[f]
        elif f == "bid":
            s[f] = bid
        elif f == "tag":
            s[f] = tag
        else:
            s[f] = {"major": nums[0], "minor": nums[1], "patch": nums[2]}[f]
    return s


def run_chunk(chunk):
    kind, pattern, arg = chunk
    st = Stats()
    world.set_today(bg.FAR_TODAY)
    if kind == "rt":
        round_trips(st, pattern, arg)
    elif kind == "bump":
        bump_graph(st, pattern, arg)
    elif kind == "chain":
        chain(st, pattern, arg)
    elif kind == "project-chain":
        project_chain(st, pattern, arg)
    else:
        dispatch(st, pattern, arg)
    return st


def round_trips(st, pattern, tier):
    fs = L.fields(pattern)
    bids = BIDS if "bid" in fs else [None]
    tags = TAGS if "tag" in fs else [None]
    dates = dates_for(pattern, tier)
    shape = "+".join(sorted(set(fs)))
    for d in dates:
        for bid, tag in ((b, t) for b in bids[: 2 if len(dates) > 2000 else None] for t in tags[: 2 if len(dates) > 2000 else None]):
            state = state_for(pattern, d, bid, tag)
            text = L.render(pattern, state)
            st.evaluations += 1
            st.transitions += 1
            case = {"pattern": pattern, "version": text}
            try:
                vinfo = v1version.parse_version_info(text, pattern)
                again = v1version.format_version(vinfo, pattern)
            except bvversion.PatternError as ex:
                st.outcomes["violation"] += 1
                st.violation(f"C20:documented-rendering-not-accepted:{shape}", case, {"error": str(ex)[:200]})
                continue
            except Exception as ex:
                st.outcomes["violation"] += 1
                st.violation(f"C20:round-trip-crash:{type(ex).__name__}:{shape}", case, {"error": str(ex)[:200]})
                continue
            st.validated += 1
            st.state(pattern, text)
            st.nontriv(pattern, text)
            if again != text:
                st.outcomes["violation"] += 1
                st.violation(f"C20:reads-back-differently:{shape}", case, {"second_rendering": again})
                continue
            # same parts
            got = {"year": vinfo.year, "quarter": vinfo.quarter, "month": vinfo.month, "dom": vinfo.dom, "doy": vinfo.doy, "major": vinfo.major,
                   "minor": vinfo.minor, "patch": vinfo.patch, "bid": vinfo.bid, "tag": vinfo.tag}
            wrong = [f for f in set(fs) if got[f] != state[f]]
            if wrong:
                st.outcomes["violation"] += 1
                st.violation(f"C20:part-reads-back-differently:{wrong[0]}:{shape}", case, {"read": {f: got[f] for f in wrong}, "was": {f: state[f] for f in wrong}})
                continue
            st.outcomes["round-trip-ok"] += 1
    st.observe((pattern, len(dates), st.evaluations))
    if pattern == "{pycalver}":
        st.sample({"pattern": pattern, "round_trip_states": st.evaluations, "last": text})


def ref_event(ev, base):
    major, minor, patch, tag, kind = ev
    return {"major": major, "minor": minor, "patch": patch, "tag": tag, "pin_date": kind == "pin", "date": bg.event_date(kind, base),
            "tag_num": False, "pin_increments": False}


def bump_graph(st, pattern, tier):
    fs = L.fields(pattern)
    seeds_d = [dt.date(2020, 6, 15), dt.date(2020, 12, 31), dt.date(2024, 2, 29), dt.date(2021, 1, 1)]
    has_cal = any(f in L.CAL for f in fs)
    bids = (["1001", "0999", "1999"] if tier == "quick" else BIDS) if "bid" in fs else [None]
    tags = (["final", "beta", "rc"] if tier == "quick" else TAGS) if "tag" in fs else [None]
    kinds = DATEKINDS if has_cal else ("pin", "same")
    events = [(a, b, c, t, k) for a, b, c in itertools.product((False, True), repeat=3) for t in (None, "beta", "final", "rc") for k in kinds]
    shape = "+".join(sorted(set(fs)))
    for d in (seeds_d if has_cal else seeds_d[:1]):
        for bid in bids:
            for tag in tags:
                state = state_for(pattern, d, bid, tag, nums=(1, 9, 10))
                old = L.render(pattern, state)
                if L.recognise(pattern, old) != state:
                    st.counters["seed_states_skipped_not_representable"] += 1
                    continue
                st.state(pattern, old)
                produced = False
                for ev in events:
                    rev = ref_event(ev, d)
                    res = L.bump(pattern, state, rev)
                    exp = None
                    if res[0] == "ok":
                        t = L.render(pattern, res[1])
                        if t != old and L.recognise(pattern, t) == res[1] and bg.greater(t, old):
                            exp = t
                    o = bg.impl_test(pattern, old, rev)
                    st.evaluations += 1
                    st.transitions += 1
                    st.validated += 1
                    got = o.new_version if o.exit == 0 else None
                    st.observe((pattern, old, ev, o.exit, got))
                    case = {"pattern": pattern, "old": old, "flags": bg.cli_args(rev)}
                    mk = bg.mode_key(rev, d)
                    if o.crashed:
                        st.outcomes["violation"] += 1
                        st.violation(f"C20:crash:{o.crashed.split(':')[0]}:{shape}:{mk}", case, {"crashed": o.crashed})
                        continue
                    if got is not None:
                        produced = True
                        if not bg.greater(got, old):
                            st.outcomes["violation"] += 1
                            st.violation(f"C20:result-not-greater:{shape}:{mk}", case, {"announced": got})
                            continue
                        if pattern == "{pycalver}" and not (got > old):
                            st.outcomes["violation"] += 1
                            st.violation(f"C20:pycalver-not-greater-as-string:{mk}", case, {"announced": got})
                            continue
                    if got != exp:
                        st.outcomes["violation"] += 1
                        kindv = "refused-but-rules-give-a-version" if got is None else ("announced-but-rules-give-none" if exp is None else "wrong-parts")
                        st.violation(f"C20:{kindv}:{shape}:{mk}", case, {"announced": got, "reference": exp})
                    else:
                        st.outcomes["ok:new-version" if got else "ok:none"] += 1
                if produced:
                    st.nontriv(pattern, old)


def chain(st, pattern, length):
    cur = "v202001.0001-beta" if pattern == "{pycalver}" else "1.2.3"
    date = dt.date(2020, 1, 15)
    for i in range(length):
        if i % 7 == 0:
            date += dt.timedelta(days=40)
        kw = dict(old_version=cur, pattern=pattern, date=date.isoformat())
        if pattern == "{semver}":
            kw[("patch", "minor", "major")[0 if i % 10 else (1 if i % 50 else 2)]] = True
        elif i % 97 == 0:
            kw["tag"] = ("rc", "final", "beta")[(i // 97) % 3]
        o = world.callback("test", **kw)
        st.evaluations += 1
        st.transitions += 1
        st.validated += 1
        case = {"pattern": pattern, "chain_step": i, "old": cur}
        if o.exit != 0:
            st.outcomes["chain:refused"] += 1
            if kw.get("tag") is None:
                st.violation(f"C20:chain-stuck:{pattern}", case, {"log": o.log[-2:]})
                break
            continue
        new = o.new_version
        if not bg.greater(new, cur) and not (kw.get("tag") and bg.is_pep440(new)):
            st.violation(f"C20:chain-not-increasing:{pattern}", case, {"new": new})
        if pattern == "{pycalver}" and not (new > cur):
            st.violation("C20:chain-pycalver-not-greater-as-string", case, {"new": new})
        st.state(pattern, new)
        st.outcomes["chain:step"] += 1
        cur = new
    st.observe((pattern, cur))
    st.sample({"chain": pattern, "steps": length, "end": cur})


def project_chain(st, pattern, length):
    """A project with {version} and {pep440_version} occurrences updated again and again (tags cycling through every
    value): what one update writes must be found again by the next one, and must denote the announced version."""
    d = pool.fresh_dir("c20p")
    os.chdir(d)
    fs = L.fields(pattern)
    state = state_for(pattern, dt.date(2020, 6, 15), "1001" if "bid" in fs else None, "final" if "tag" in fs else None)
    old = L.render(pattern, state)
    pep_old = str(pv.Version(old)) if bg.is_pep440(old) else old
    # ({pep440_version} stands for the PEP 440 form of the named composite patterns only; other legacy patterns get the {version} entry alone)
    with_pep = pattern in PEP_OK
    cfg = (f'[bumpver]\ncurrent_version = "{old}"\nversion_pattern = "{pattern}"\n\n[bumpver.file_patterns]\n'
           '"bumpver.toml" = [\'current_version = "{version}"\']\n"setup.py" = ['
           + ('\'version="{pep440_version}"\', ' if with_pep else '') + '"tag {version} "]\n')
    world.write_tree({"bumpver.toml": cfg.encode(), "setup.py": f'setup(version="{pep_old}")\n# tag {old} \n'.encode()})
    tags = ["post", "dev", "beta", "final", "rc", "alpha", "post", "final", "dev"]
    date = dt.date(2020, 6, 15)
    cur = old
    for i in range(length):
        date += dt.timedelta(days=17)
        flags = ["--date", date.isoformat()]
        if "tag" in fs:
            flags += ["--tag", tags[i % len(tags)]]
        if "patch" in fs:
            flags += ["--patch"]
        elif "minor" in fs:
            flags += ["--minor"]
        elif "major" in fs:
            flags += ["--major"]
        o = world.cli("update", "--no-fetch", *flags)
        st.evaluations += 1
        st.transitions += 1
        st.validated += 1
        case = {"pattern": pattern, "project_chain_step": i, "old": cur, "flags": flags}
        st.observe((case, o.exit, o.crashed, o.new_version))
        if o.exit != 0:
            st.outcomes["violation"] += 1
            st.violation(f"C20:project-chain-stuck:{pattern}:after-tag-{tags[(i - 1) % len(tags)] if i else 'final'}", case,
                         {"exit": o.exit, "crashed": o.crashed, "log": [m for _l, m in o.log if "No match" in m or "Invalid" in m][:2],
                          "setup.py": world.read_tree(".")["setup.py"].decode("utf-8", "replace")})
            break
        new = o.new_version
        text = world.read_tree(".")["setup.py"].decode("utf-8", "replace")
        m = re.fullmatch(r'setup\(version="(.*)"\)\n# tag (.*) \n', text)
        if not m or m.group(2) != new:
            st.outcomes["violation"] += 1
            st.violation(f"C20:project-chain-file-disagrees:{pattern}", case, {"file": text, "announced": new})
            break
        if bg.is_pep440(new) and with_pep:
            try:
                same = pv.Version(m.group(1)) == pv.Version(new)
            except pv.InvalidVersion:
                same = False
            if not same:
                st.outcomes["violation"] += 1
                st.violation(f"C20:pep440-occurrence-is-another-version:{pattern}", case, {"file": text, "announced": new})
                break
        st.state(pattern, "project", new)
        st.nontriv(pattern, "project", new)
        st.outcomes["project-chain:step"] += 1
        cur = new
    os.chdir("/")


def dispatch(st, pattern, tier):
    """test / update --dry / update / config loader must use the same engine; pep440 occurrences must denote the version."""
    d = pool.fresh_dir("c20")
    os.chdir(d)
    fs = L.fields(pattern)
    date = dt.date(2020, 6, 15)
    state = state_for(pattern, date, "1001" if "bid" in fs else None, "beta" if "tag" in fs else None)
    old = L.render(pattern, state)
    with_pep = pattern in PEP_OK
    pats = ["ver={version};"] + (["pep={pep440_version};"] if with_pep else [])
    pep_old = ""
    if with_pep:
        pep_old = str(pv.Version(old)) if bg.is_pep440(old) else old
    for flags in ([], ["--patch"], ["--tag", "rc"], ["--minor", "--tag", "final"]):
        cfg = f'[bumpver]\ncurrent_version = "{old}"\nversion_pattern = "{pattern}"\n\n[bumpver.file_patterns]\n"a.txt" = [' + ", ".join("'" + p + "'" for p in pats) + "]\n"
        body = f"ver={old};\n" + (f"pep={pep_old};\n" if with_pep else "")
        world.clear_dir(".")
        world.write_tree({"bumpver.toml": cfg.encode(), "a.txt": body.encode()})
        args = flags + ["--date", "2020-08-20"]
        o_test = world.cli("test", old, pattern, *args)
        o_show = world.cli("show", "--no-fetch")
        o_dry = world.cli("update", "--dry", "--no-fetch", *args)
        o_real = world.cli("update", "--no-fetch", *args)
        st.evaluations += 4
        st.transitions += 4
        st.validated += 1
        case = {"pattern": pattern, "old": old, "flags": args, "dispatch": True}
        st.observe((case, o_test.exit, o_test.new_version, o_dry.exit, o_dry.new_version, o_real.exit, o_real.new_version, o_show.exit))
        shape = "+".join(sorted(set(fs)))
        if o_show.exit != 0:
            st.outcomes["violation"] += 1
            st.violation(f"C20:config-loader-rejects-legacy-version:{shape}", case, {"log": o_show.log[-2:]})
            continue
        res = [(o.exit == 0, o.new_version if o.exit == 0 else None) for o in (o_test, o_dry, o_real)]
        if len(set(res)) != 1:
            st.outcomes["violation"] += 1
            st.violation(f"C20:test-and-update-handle-the-pattern-differently:{shape}", case,
                         {"test": res[0], "update --dry": res[1], "update": res[2], "crashed": [o.crashed for o in (o_test, o_dry, o_real)], "log": o_dry.log[-2:]})
            continue
        if o_real.exit == 0:
            new = o_real.new_version
            text = world.read_tree(".")["a.txt"].decode("utf-8", "replace")
            m = re.fullmatch(r"ver=(.*);\n(?:pep=(.*);\n)?", text)
            if not m or m.group(1) != new:
                st.outcomes["violation"] += 1
                st.violation(f"C20:file-not-rewritten-to-announced-version:{shape}", case, {"file": text, "announced": new})
            elif with_pep and bg.is_pep440(new):
                try:
                    same = pv.Version(m.group(2)) == pv.Version(new)
                except pv.InvalidVersion:
                    same = False
                if not same:
                    st.outcomes["violation"] += 1
                    st.violation(f"C20:pep440-occurrence-is-another-version:{shape}", case, {"file": text, "announced": new})
                else:
                    st.outcomes["dispatch-ok+pep440"] += 1
            else:
                st.outcomes["dispatch-ok"] += 1
        else:
            st.outcomes["dispatch-consistent-refusal"] += 1
    os.chdir("/")


def replay(case, st):
    world.set_today(bg.FAR_TODAY)
    if case.get("dispatch"):
        dispatch(st, case["pattern"], "thorough")
    elif "project_chain_step" in case:
        project_chain(st, case["pattern"], case["project_chain_step"] + 2)
    elif "chain_step" in case:
        chain(st, case["pattern"], case["chain_step"] + 2)
    elif "flags" in case:
        bump_graph(st, case["pattern"], "thorough")
    else:
        round_trips(st, case["pattern"], "thorough")
