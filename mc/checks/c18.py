"""C18 - the same configuration means the same thing in every config format.

Abstract configurations (full product of version/pattern pair, INI quoting style, commit/tag/push in {absent, true,
false}^3, commit message, tag message, tag scope, hooks, file layout; plus every INI boolean spelling one at a time)
are written as setup.cfg [bumpver], setup.cfg [pycalver], pyproject.toml [tool.bumpver], bumpver.toml, .bumpver.toml
and pycalver.toml [pycalver]; the real loader (config.init) reads each.  Differential oracle: all six give the same
settings / the same rejection; absolute oracle: the settings equal the abstract configuration with defaults filled
in.  `show` and `update --dry` through the CLI on a core subset.
"""
import itertools
import os

import bumpver.config as bvconfig

from .. import pool, world
from ..stats import Stats

ID = "C18"
LEVEL = "model_checking"
MIN_OUTCOMES = 2
MANIFEST = {
    'text': "Complete product of the stated abstract-configuration dimensions, each point rendered in six config syntaxes (setup.cfg and bumpver.toml also with CRLF line endings, with blank/comment lines between patterns and keys, and among other tools' sections; pyproject.toml also with the README's top-level [bumpver] table) and read by the real loader: all Config results must be identical in every field the property names (versions, pattern, messages, scope, hooks, commit/tag/push, file/pattern pairs, acceptance) and equal to the abstract configuration; the config file's own entry is judged by function (it must match exactly the current_version line); CLI `show`/`update --dry` agree on a core subset. Two renderings put the section after more than 8 KiB of other tools' settings, next to another config-capable file that has no bumpver section.",
    'note': 'TOML features beyond plain tables/strings/arrays and mixed quoting of the two version keys inside one INI file are outside the space; values not expressible in INI (leading blank, #/; at line start) are excluded and counted',
    'technique': 'exhaustive enumeration of a bounded configuration space, differential oracle across six renderings on the real loader',
}
RULE = (
    "one evaluation = one config file parsed by the real loader; a case = one abstract configuration in 6 renderings; distinct "
    "non-trivial = distinct abstract configurations"
)
ASSUMPTIONS = ["an abstract configuration is 'the same' in two syntaxes when each key carries the same string/boolean value in that syntax's own notation"]

# (2024.1100: a version that reads like a decimal number with a trailing zero - it must stay a string in every syntax)
VERSIONS = [("1.2.3", "MAJOR.MINOR.PATCH"), ("v202003.1001-beta", "vYYYY0M.BUILD[-TAG]"), ("v201712.0033-beta", "{pycalver}"), ("2024.1100", "YYYY.BUILD")]
TRI = (None, True, False)
# (the last one spans several lines: subject, blank line, body - TOML writes it with \n escapes, setup.cfg with continuation lines)
COMMIT_MSGS = [None, "bump {old_version} -> {new_version}", 'release "{new_version}" now', "progress 100% {new_version}", "bump {new_version}\n\n[skip ci]\nReleased-by: bumpver"]
TAG_MSGS = [None, "", "release {new_version}"]
SCOPES = [None, "default", "global", "branch"]
HOOKS = [None, "", "hook.sh", "missing.sh"]
LAYOUTS = ["none", "1x1", "1x3", "2x2", "glob", "explicit", "glob-over-config", "caps"]
RENDERINGS = ["setup.cfg[bumpver]", "setup.cfg[pycalver]", "pyproject.toml", "bumpver.toml", ".bumpver.toml", "pycalver.toml",
              # the same files as they look when saved with Windows line endings
              "setup.cfg[bumpver]+crlf", "bumpver.toml+crlf",
              # the same content laid out differently: blank and comment lines between the patterns of a file entry and between keys
              "setup.cfg[bumpver]+airy", "setup.cfg[pycalver]+airy", "bumpver.toml+airy",
              # the section among other tools' sections (before and after it); pyproject.toml with the README's top-level [bumpver] table
              "setup.cfg[bumpver]+neighbours", "bumpver.toml+neighbours", "pyproject.toml+neighbours", "pyproject.toml[top]+neighbours",
              # the section FAR down a long shared file (> 8 KiB of other tools' settings before it), next to another config-capable file
              # that holds no bumpver section
              "setup.cfg[bumpver]+far", "pyproject.toml+far"]
INI_TRUE = ["yes", "true", "1", "on", "Yes", "TRUE", "On", "True"]
INI_FALSE = ["no", "false", "0", "off", "No", "FALSE", "Off", "False"]


def layout_entries(layout, cfgname, toml):
    own = 'current_version = "{version}"' if True else ""
    if layout == "none":
        return []
    if layout == "1x1":
        return [("a.txt", ["ver={version};"])]
    if layout == "1x3":
        return [("a.txt", ["ver={version};", "pep={pep440_version};", 'label=my%20project-{version}'])]
    if layout == "2x2":
        return [("a.txt", ["ver={version};", "pep={pep440_version};"]), ("docs/b.txt", ['__version__ = "{version}"', "Copyright 2020 demo {version}"])]
    if layout == "glob":
        return [("src/*.txt", ["ver={version};"])]
    if layout == "explicit":
        return [(cfgname, ["@OWN@"]), ("a.txt", ["ver={version};"])]
    if layout == "caps":
        # file names that look like identifiers and carry upper-case letters (INI option names are case-folded by default; file names are not)
        return [("VERSION", ["{version}"]), ("Makefile", ["VERSION := {version}"]), ("docs/CHANGES", ["release {version}"])]
    if layout == "glob-over-config":
        # a glob that also reaches the config file itself (by its extension), for some other line: the config's own line stays configured
        ext = os.path.splitext(cfgname)[1]
        return [("*" + ext, ["release {version}"]), ("a.txt", ["ver={version};"])]
    raise KeyError(layout)


def render(abstract, rendering):
    """-> (config file name, text)"""
    (ver, pat), quoted, (c, t, p), cmsg, tmsg, scope, hook, layout, bools = abstract
    if rendering.endswith("+crlf"):
        name, text = render(abstract, rendering[:-5])
        return name, text.replace("\n", "\r\n")
    if rendering.endswith("+neighbours"):
        base = rendering[:-11]
        if base == "pyproject.toml[top]":
            _n, text = render(abstract, "bumpver.toml")
            name = "pyproject.toml"
            text = text.replace('"bumpver.toml" = [', '"pyproject.toml" = [')  # (the explicit entry for the config file itself)
        else:
            name, text = render(abstract, base)
        if name.endswith(".toml"):
            before = '[build-system]\nrequires = ["setuptools"]\n\n[tool.black]\nline-length = 100\n\n'
            after = '\n[tool.isort]\nprofile = "black"\n\n[project]\nname = "demo"\n'
        else:
            before = "[metadata]\nname = demo\ndescription: colon style\n\n[tool:pytest]\naddopts = -q\n\n"
            after = "\n[options]\nzip_safe = False\n\n[bumpversion]\ncommit = True\n"
        return name, before + text + after
    if rendering.endswith("+far"):
        name, text = render(abstract, rendering[:-4])
        if name.endswith(".toml"):
            before = "".join(f'[tool.other{i}]\nsetting = "{"x" * 60}"\nnumber = {i}\n\n' for i in range(90))
        else:
            before = "".join(f"[other{i}]\nsetting = {'x' * 60}\nnumber = {i}\n\n" for i in range(100))
        assert len(before) > 8192
        return name, before + text
    if rendering.endswith("+airy"):
        name, text = render(abstract, rendering[:-5])
        out, prev_indented, in_patterns = [], False, False
        for line in text.split("\n"):
            if line.startswith("["):
                in_patterns = "file_patterns]" in line
            indented = line.startswith("    ") and in_patterns  # (continuation lines of a multi-line message are left alone)
            if indented and prev_indented:
                out.append("")  # an empty line between two patterns of one entry
                if name.endswith(".toml"):
                    out.append("    # next pattern")
            if line.startswith(("commit", "tag", "push", "pre_commit")):
                out += ["", "# a comment between keys"]
            out.append(line)
            prev_indented = indented
        return name, "\n".join(out)
    name = rendering.split("[")[0]
    toml = name.endswith(".toml")
    section = {"setup.cfg[bumpver]": "bumpver", "setup.cfg[pycalver]": "pycalver", "pyproject.toml": "tool.bumpver",
               "bumpver.toml": "bumpver", ".bumpver.toml": "bumpver", "pycalver.toml": "pycalver"}[rendering]

    def s(v):
        if toml:
            return '"' + v.replace("\\", "\\\\").replace('"', '\\"').replace("\n", "\\n") + '"'
        if "\n" in v:
            return v.replace("\n", "\n    ")  # continuation lines (quoting a multi-line value is not an INI convention)
        return ('"' + v + '"') if quoted else v

    def b(key, v):
        if toml:
            return "true" if v else "false"
        if bools and bools[0] == key:
            return bools[1]
        return "True" if v else "False"

    lines = [f"[{section}]", f"current_version = {s(ver)}", f"version_pattern = {s(pat)}"]
    if cmsg is not None:
        lines.append(f"commit_message = {s(cmsg)}")
    if tmsg is not None:
        lines.append(f"tag_message = {s(tmsg)}")
    if scope is not None:
        lines.append(f"tag_scope = {s(scope)}")
    if hook is not None:
        lines.append(f"pre_commit_hook = {s(hook)}")
        lines.append(f"post_commit_hook = {s(hook)}")
    for key, v in (("commit", c), ("tag", t), ("push", p)):
        if bools and bools[0] == key:
            v = bools[1].lower() in ("yes", "true", "1", "on")  # the abstract value this spelling denotes
        if v is not None:
            lines.append(f"{key} = {b(key, v)}")
    entries = layout_entries(layout, name, toml)
    own = f"current_version = {s('{version}')}" if (toml or quoted) else "current_version = {version}"
    if toml:
        lines += ["", f"[{section}.file_patterns]"]
        for path, pats in entries:
            lines.append(f'"{path}" = [')
            for r in pats:
                r = own if r == "@OWN@" else r
                lines.append("    '" + r + "'," if "'" not in r else "    " + s(r) + ",")
            lines.append("]")
    else:
        lines += ["", f"[{section}:file_patterns]"]
        for path, pats in entries:
            lines.append(f"{path} =")
            for r in pats:
                lines.append("    " + (own if r == "@OWN@" else r))
    return name, "\n".join(lines) + "\n"


def expected(abstract):
    """The effective settings the abstract configuration denotes (None = must be rejected)."""
    (ver, pat), quoted, (c, t, p), cmsg, tmsg, scope, hook, layout, bools = abstract
    if bools:
        val = bools[1].lower() in ("yes", "true", "1", "on")
        c, t, p = [(val if k == bools[0] else v) for k, v in zip(("commit", "tag", "push"), (c, t, p))]
    commit = bool(c)
    tag = bool(t)
    push = bool(p)
    if (tag or push) and not commit:
        return None
    if hook == "missing.sh":
        return None
    strip = lambda m: m.strip("'\" ")  # noqa: E731  (documented loader behaviour, same in every format; see C12 finding)
    return {
        "current_version": ver, "version_pattern": pat,
        "commit_message": strip(cmsg) if cmsg is not None else "bump version to {new_version}",
        "tag_message": strip(tmsg) if tmsg is not None else "{new_version}",
        "tag_scope": scope or "default", "pre_commit_hook": hook or "", "post_commit_hook": hook or "",
        "commit": commit, "tag": tag, "push": push,
    }


def companions(rendering):
    """Other config-capable files that lie next to the config file (they hold no bumpver section)."""
    if rendering == "setup.cfg[bumpver]+far":
        return {"pyproject.toml": '[build-system]\nrequires = ["setuptools"]\n\n[tool.black]\nline-length = 100\n'}
    if rendering == "pyproject.toml+far":
        return {"setup.cfg": "[metadata]\nname = demo\n\n[flake8]\nmax-line-length = 100\n"}
    return {}


def observe(cfgname):
    ctx, cfg = bvconfig.init(project_path=".")
    if cfg is None:
        return None
    fp = {}
    own = None
    for path, pats in cfg.file_patterns.items():
        if path == cfgname:
            own = [p for p in pats]
        else:
            fp[path] = sorted(p.raw_pattern for p in pats)
    settings = {
        "current_version": cfg.current_version, "version_pattern": cfg.version_pattern, "pep440_version": cfg.pep440_version,
        "commit_message": cfg.commit_message, "tag_message": cfg.tag_message, "tag_scope": cfg.tag_scope.value,
        "pre_commit_hook": cfg.pre_commit_hook, "post_commit_hook": cfg.post_commit_hook,
        "commit": bool(cfg.commit), "tag": bool(cfg.tag), "push": bool(cfg.push), "is_new_pattern": cfg.is_new_pattern,
        "files": sorted(fp.items()),
    }
    # the config file's own entry, judged by function: it must match exactly the current_version line of this file
    with open(cfgname, encoding="utf-8", newline="") as f:
        lines = f.read().split("\n")
    hits = []
    for p in own or []:
        hits += [i for i, line in enumerate(lines) if p.regexp.search(line)]
    want = [i for i, line in enumerate(lines) if line.startswith("current_version")]
    settings["own_entry_ok"] = bool(own) and sorted(set(hits)) == want
    return settings


def bounds(tier, seed):
    return {"renderings": RENDERINGS, "dimensions": {"version/pattern": len(VERSIONS), "ini_quoting": 2, "commit/tag/push": 27,
            "commit_message": len(COMMIT_MSGS) if tier == "thorough" else 3, "tag_message": len(TAG_MSGS), "tag_scope": len(SCOPES),
            "hooks": len(HOOKS) if tier == "thorough" else 3, "layout": len(LAYOUTS)},
            "ini_boolean_spellings": INI_TRUE + INI_FALSE}


def space(tier, seed):
    cm = COMMIT_MSGS if tier == "thorough" else [COMMIT_MSGS[0], COMMIT_MSGS[2], COMMIT_MSGS[3], COMMIT_MSGS[4]]
    hk = HOOKS if tier == "thorough" else [HOOKS[0], HOOKS[2], HOOKS[3]]
    tm = TAG_MSGS
    sc = SCOPES if tier == "thorough" else [None, "branch", "global"]
    for vp, quoted, ctp, cmsg, tmsg, scope, hook, layout in itertools.product(
        VERSIONS, (True, False), itertools.product(TRI, repeat=3), cm, tm, sc, hk, LAYOUTS
    ):
        yield (vp, quoted, ctp, cmsg, tmsg, scope, hook, layout, None)
    # boolean spellings, one option at a time
    for vp in VERSIONS[:2]:
        for key in ("commit", "tag", "push"):
            for spelling in INI_TRUE + INI_FALSE:
                base = {"commit": True, "tag": None, "push": None}
                yield (vp, False, (True, None, None), None, None, None, None, "1x1", (key, spelling))


def explore(tier, seed):
    pts = list(space(tier, seed))
    if tier == "quick":
        # the quick tier walks one fixed eighth of the product per seed (the thorough tier covers all of it)
        main = [p for p in pts if p[8] is None]
        rest = [p for p in pts if p[8] is not None]
        # (sliced by a hash of the point: a stride would alias with the product's dimension sizes)
        from ..stats import h64

        pts = [p for p in main if h64(p) % 8 == seed % 8] + rest
    chunks = [("cfg", part) for part in pool.split(pts, pool.NPROC * 4)]
    return pool.run_chunks(run_chunk, chunks)


def run_chunk(chunk):
    import datetime as dt

    _k, pts = chunk
    st = Stats()
    world.set_today(dt.date(2033, 3, 3))
    d = pool.fresh_dir("c18")
    os.chdir(d)
    world.write_tree({"a.txt": b"ver=1.2.3;\n", "docs/b.txt": b"x\n", "src/x.txt": b"ver=1;\n", "src/y.txt": b"ver=2;\n", "hook.sh": b"#!/bin/sh\n",
                      "VERSION": b"1.2.3\n", "Makefile": b"VERSION := 1.2.3\n", "docs/CHANGES": b"release 1.2.3\n"})
    cli_done = 0
    for n, abstract in enumerate(pts):
        results = {}
        for rendering in RENDERINGS:
            name, text = render(abstract, rendering)
            for other in ("setup.cfg", "pyproject.toml", "bumpver.toml", ".bumpver.toml", "pycalver.toml"):
                if os.path.exists(other):
                    os.unlink(other)
            with open(name, "w", encoding="utf-8", newline="") as f:
                f.write(text)
            for cname, ctext in companions(rendering).items():
                with open(cname, "w", encoding="utf-8", newline="") as f:
                    f.write(ctext)
            try:
                results[rendering] = observe(name)
            except Exception as ex:
                results[rendering] = {"crash": f"{type(ex).__name__}: {str(ex)[:120]}"}
            st.evaluations += 1
            st.transitions += 1
        st.state(abstract)
        st.nontriv(abstract)
        st.observe((abstract, sorted((k, repr(v)) for k, v in results.items())))
        judge(st, abstract, results)
        if cli_done < 2 and abstract[7] in ("2x2", "explicit") and abstract[8] is None and expected(abstract) is not None:
            cli_level(st, abstract)  # the first two accepted 2x2/explicit configurations of every chunk (deterministic)
            cli_done += 1
        if n == 5:
            st.sample({"abstract": list(map(str, abstract)), "renderings": {r: render(abstract, r)[1] for r in RENDERINGS[:3]}})
    os.chdir("/")
    return st


def judge(st, abstract, results):
    case = {"abstract": [list(x) if isinstance(x, tuple) else x for x in abstract]}
    exp = expected(abstract)
    ref_name = "bumpver.toml"
    ref = results[ref_name]
    dim = []
    for r, got in results.items():
        if isinstance(got, dict) and "crash" in got:
            st.outcomes["violation"] += 1
            st.violation(f"C18:loader-crash:{r.split('[')[0].split('.')[-1]}:{got['crash'].split(':')[0]}", dict(case, rendering=r), got)
            return
    for r, got in results.items():
        if (got is None) != (ref is None):
            st.outcomes["violation"] += 1
            st.violation(f"C18:accepted-in-one-format-rejected-in-another:{_fmt(r)}-vs-toml", dict(case, rendering=r),
                         {"this": "rejected" if got is None else "accepted", "bumpver.toml": "rejected" if ref is None else "accepted"})
            return
        if got is None:
            continue
        diff = [k for k in got if got[k] != ref[k] and k != "own_entry_ok"]
        if diff:
            st.outcomes["violation"] += 1
            st.violation(f"C18:settings-differ-between-formats:{_fmt(r)}-vs-toml:{diff[0]}", dict(case, rendering=r),
                         {"fields": diff, "this": {k: got[k] for k in diff}, "bumpver.toml": {k: ref[k] for k in diff}})
            return
        if not got["own_entry_ok"]:
            st.outcomes["violation"] += 1
            st.violation(f"C18:own-current_version-entry-does-not-match-its-line:{_fmt(r)}", dict(case, rendering=r), {})
            return
    if (ref is None) != (exp is None):
        st.outcomes["violation"] += 1
        st.violation("C18:acceptance-differs-from-abstract-configuration", case, {"loader": "rejected" if ref is None else "accepted"})
        return
    if ref is not None:
        wrong = [k for k in exp if ref[k] != exp[k]]
        if wrong:
            st.outcomes["violation"] += 1
            st.violation(f"C18:settings-differ-from-abstract-configuration:{wrong[0]}", case, {"fields": wrong, "loader": {k: ref[k] for k in wrong}, "abstract": {k: exp[k] for k in wrong}})
            return
    st.validated += len(results)
    st.outcomes["same-in-all-renderings:" + ("rejected" if ref is None else "accepted")] += 1


def _fmt(r):
    return "ini" if r.startswith("setup.cfg") else "toml:" + r


def cli_level(st, abstract):
    outs = {}
    for rendering in RENDERINGS:
        name, text = render(abstract, rendering)
        for other in ("setup.cfg", "pyproject.toml", "bumpver.toml", ".bumpver.toml", "pycalver.toml"):
            if os.path.exists(other):
                os.unlink(other)
        with open(name, "w", encoding="utf-8", newline="") as f:
            f.write(text)
        for cname, ctext in companions(rendering).items():
            with open(cname, "w", encoding="utf-8", newline="") as f:
                f.write(ctext)
        o1 = world.cli("show", "--no-fetch")
        o2 = world.cli("update", "--dry", "--no-fetch", "--set-version", {"1.2.3": "1.2.4", "v202003.1001-beta": "v202103.1002", "v201712.0033-beta": "v201801.0034", "2024.1100": "2033.1101"}[abstract[0][0]])
        st.evaluations += 2
        # diff without the hunk of the config file itself
        diff = []
        skip = False
        for line in o2.stdout.splitlines():
            if line.startswith("--- "):
                skip = line[4:] == name
            if not skip:
                diff.append(line)
        outs[rendering] = (o1.exit, o1.stdout, o2.exit, o2.old_version, o2.new_version, "\n".join(diff).strip())
    if len(set(outs.values())) != 1:
        st.outcomes["violation"] += 1
        st.violation("C18:cli-show-or-dry-update-differs-between-formats", {"abstract": [list(x) if isinstance(x, tuple) else x for x in abstract]},
                     {k: list(v) for k, v in outs.items()})
    else:
        st.outcomes["cli-same-in-all-renderings"] += 1


def replay(case, st):
    import datetime as dt

    world.set_today(dt.date(2033, 3, 3))
    d = pool.fresh_dir("c18r")
    os.chdir(d)
    a = case["abstract"]
    abstract = (tuple(a[0]), a[1], tuple(a[2]), a[3], a[4], a[5], a[6], a[7], tuple(a[8]) if a[8] else None)
    st.merge(run_chunk(("cfg", [abstract])))
    os.chdir("/")
