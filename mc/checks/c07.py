"""C07 - literal pattern text matches only itself.

Space: all symbol strings over printable ASCII without upper-case letters (brackets only as \\[ \\]) up to
length 2 (quick) / 3 (thorough), every single symbol and ordered pair repeated to length 40, each in four
contexts (alone, before MAJOR, after MAJOR, wrapped around YYYY.BUILD[-TAG]).  Oracles: structure of the
compiled regex (only literal nodes for literal text), search behaviour on the exact line and every
one-character edit compared with a reference regex, rendering reproduces the text; `grep` and `update`
through the CLI for every single symbol.
"""
import datetime as dt
import itertools
import os
import re

try:
    import re._parser as sre_parse
    import re._constants as sre_c
except ImportError:  # pragma: no cover
    import sre_parse
    import sre_constants as sre_c

import bumpver.v2patterns as v2patterns
import bumpver.v2version as v2version

from .. import pool, world
from ..stats import Stats

ID = "C07"
LEVEL = "exploration"
MIN_OUTCOMES = 3
MANIFEST = {
    'text': 'Exhaustive over the stated literal alphabet (69 symbols) up to length 2/3 plus length-40 repetitions, in 4 contexts: the compiled regex must consist of literal nodes for the literal text (structure oracle), must find exactly what a reference regex built with re.escape finds on the exact line and on every single-character edit of it, and rendering must reproduce the text; grep/update are driven through the CLI for every single symbol (conformance of the library seam), with the text in the middle of a line, at its very start, at its very end and alone on it, on the first/middle/last line of a file with and without final newline, and - for update - with the symbol before {version}, after it, and on BOTH sides of it (k.txt), the patterns given through bumpver.toml and through setup.cfg; 45 regex-idiom literals in every tier.',
    'note': 'non-ASCII literals and strings longer than 3 symbols with more than two distinct symbols are outside the bound',
    'technique': 'exhaustive enumeration of a bounded input grammar against a reference recogniser (structural + behavioural oracle)',
}
RULE = (
    "one evaluation = one (literal, context) pattern compiled by the real code and probed; distinct non-trivial = distinct "
    "(literal, context) whose pattern compiled and was probed with >= 3 lines"
)
ASSUMPTIONS = ["reference recogniser: re.escape(text) + the documented part ranges for MAJOR/YYYY/BUILD/TAG"]

CHARS = [chr(c) for c in range(0x20, 0x7F) if not chr(c).isupper() and chr(c) not in "[]"]
SYMS = CHARS + ["\\[", "\\]"]
TODAY = dt.date(2021, 3, 4)


def sym_text(sym):
    return sym[1] if len(sym) == 2 else sym


def hexs(syms):
    return "+".join("0x" + s.encode().hex() for s in syms)


CONTEXTS = ("alone", "pre", "suf", "wrap")
REF_MAJOR = r"(?P<major>[0-9]+)"
REF_CAL = r"(?P<year_y>[1-9][0-9]{3})\.(?P<bid>[0-9]+)(?:-(?P<tag>preview|final|dev|alpha|beta|post|rc))?"


def build(syms, ctx):
    """-> (pattern, ref_regex_str, rendered_line_core, literal spans in core, expected render)"""
    lit = "".join(syms)
    text = "".join(sym_text(s) for s in syms)
    if ctx == "alone":
        pat, lead, trail = lit, True, True
    elif ctx == "pre":
        pat, lead, trail = lit + "MAJOR", True, False
    elif ctx == "suf":
        pat, lead, trail = "MAJOR" + lit, False, True
    else:
        pat, lead, trail = lit + "YYYY.BUILD[-TAG]" + lit, True, True
    # documented anchors: ^ as very first / $ as very last character of the pattern
    pre_text = text
    suf_text = text
    a_begin = a_end = False
    if lead and syms and syms[0] == "^":
        a_begin, pre_text = True, text[1:]
    if trail and syms and syms[-1] == "$":
        a_end, suf_text = True, text[:-1]
    if ctx == "alone":
        t = text
        if a_begin:
            t = t[1:]
        if a_end and t:
            t = t[:-1]
        ref = ("^" if a_begin else "") + re.escape(t) + ("$" if a_end else "")
        core, spans, render = t, [(0, len(t))], None
        if not t:
            return None
    elif ctx == "pre":
        ref = ("^" if a_begin else "") + re.escape(pre_text) + REF_MAJOR
        core, spans, render = pre_text + "12", [(0, len(pre_text))], pre_text + "12"
    elif ctx == "suf":
        ref = REF_MAJOR + re.escape(suf_text) + ("$" if a_end else "")
        core, spans, render = "12" + suf_text, [(2, 2 + len(suf_text))], "12" + suf_text
    else:
        ref = ("^" if a_begin else "") + re.escape(pre_text) + REF_CAL + re.escape(suf_text) + ("$" if a_end else "")
        mid = "2021.1001-beta"
        core = pre_text + mid + suf_text
        spans = [(0, len(pre_text)), (len(pre_text) + len(mid), len(core))]
        render = core
    return pat, ref, core, spans, render, (a_begin, a_end)


def probes(core, spans, anchors):
    a_begin, a_end = anchors
    left = "" if a_begin else "XX "
    right = "" if a_end else " XX"
    out = [left + core + right]
    # the text at the very start / very end of the line (nothing around it), and alone on the line
    out += [core + right, left + core, core]
    for (s, e) in spans:
        for i in range(s, e):
            c = core[i]
            for sub in ("q" if c != "q" else "z", "7" if c != "7" else "8", "/" if c != "/" else "~"):
                out.append(left + core[:i] + sub + core[i + 1 :] + right)
            out.append(left + core[:i] + core[i + 1 :] + right)
            out.append(left + core[:i] + "q" + core[i:] + right)
    if a_begin:
        out.append("XX " + core + right)
    if a_end:
        out.append(left + core + " XX")
    seen, uniq = set(), []
    for p in out[:51]:
        if p not in seen:
            seen.add(p)
            uniq.append(p)
    return uniq


def flatten(parsed):
    """Token list of a parsed regex: literal chars, group markers, or BAD nodes."""
    toks = []
    for op, av in parsed:
        if op is sre_c.LITERAL:
            toks.append(chr(av))
        elif op is sre_c.IN and len(av) == 1 and av[0][0] is sre_c.LITERAL:
            toks.append(chr(av[0][1]))
        elif op is sre_c.AT:
            toks.append(f"<AT:{av}>")
        elif op is sre_c.SUBPATTERN:
            toks.append("<G>")
        elif op is sre_c.MAX_REPEAT and av[0] == 0 and av[1] == 1:
            toks.append("<OPT>")
        else:
            toks.append(f"<BAD:{op}>")
    return toks


def expected_tokens(syms, ctx, anchors):
    text = "".join(sym_text(s) for s in syms)
    a_begin, a_end = anchors
    pre = list(text[1:] if a_begin else text)
    suf = list(text[:-1] if a_end else text)
    b = ["<AT:AT_BEGINNING>"] if a_begin else []
    e = ["<AT:AT_END>"] if a_end else []
    if ctx == "alone":
        t = text[1:] if a_begin else text
        t = t[:-1] if (a_end and t) else t
        return b + list(t) + e
    if ctx == "pre":
        return b + pre + ["<G>"]
    if ctx == "suf":
        return ["<G>"] + suf + e
    return b + pre + ["<G>", ".", "<G>", "<OPT>"] + suf + e


def check_one(st, syms, ctx, minimise=True):
    """Returns a violation kind or None."""
    built = build(syms, ctx)
    if built is None:
        return None
    pat, ref, core, spans, render, anchors = built
    st.evaluations += 1
    try:
        cp = v2patterns.compile_pattern(pat)
        rx = cp.regexp
    except re.error as ex:
        return ("compile-error", {"pattern": pat, "error": str(ex)})
    except Exception as ex:
        return ("compile-crash", {"pattern": pat, "error": f"{type(ex).__name__}: {ex}"})
    try:
        toks = flatten(sre_parse.parse(rx.pattern))
    except Exception as ex:  # pragma: no cover
        return ("unparsable-regex", {"pattern": pat, "regex": rx.pattern, "error": str(ex)})
    exp = expected_tokens(syms, ctx, anchors)
    if toks != exp:
        return ("structure", {"pattern": pat, "regex": rx.pattern, "tokens": toks, "expected": exp})
    refrx = re.compile(ref)
    lines = probes(core, spans, anchors)
    for line in lines:
        got, want = rx.search(line), refrx.search(line)
        gs = got.span() if got and got.end() > got.start() else None
        ws = want.span() if want and want.end() > want.start() else None
        if gs != ws:
            return ("search", {"pattern": pat, "regex": rx.pattern, "line": line, "impl_span": gs, "reference_span": ws})
    st.validated += 1
    if len(lines) >= 3:
        st.nontriv(pat)
    if render is not None:
        if ctx == "wrap":
            vinfo = v2version.parse_version_info("2021.1001-beta", "YYYY.BUILD[-TAG]")
        else:
            vinfo = v2version.parse_version_info("12", "MAJOR")
        try:
            out = v2version.format_version(vinfo, pat)
        except Exception as ex:
            return ("render-crash", {"pattern": pat, "error": f"{type(ex).__name__}: {ex}"})
        if out != render:
            return ("render", {"pattern": pat, "rendered": out, "expected": render})
    return None


def judge(st, syms, ctx):
    res = check_one(st, syms, ctx)
    st.observe((syms, ctx, res and res[0]))
    if res is None:
        st.outcomes["ok:" + ctx] += 1
        return
    kind, detail = res
    st.outcomes[f"violation:{kind}"] += 1
    for sig in signatures(syms, ctx, kind):
        st.violation(sig, {"syms": list(syms), "ctx": ctx}, dict(detail, kind=kind))


_SINGLE = {}


def fails_alone_as_literal(sym):
    """Does this one symbol, used as literal text next to a part, already break the property?"""
    if sym not in _SINGLE:
        ctx = "suf" if sym == "^" else "pre"
        _SINGLE[sym] = check_one(Stats(), [sym], ctx) is not None
    return _SINGLE[sym]


def anchor_positions(syms, ctx):
    pos = set()
    if ctx in ("alone", "pre", "wrap") and syms and syms[0] == "^":
        pos.add(0)
    if ctx in ("alone", "suf", "wrap") and syms and syms[-1] == "$":
        pos.add(len(syms) - 1)
    return pos


def signatures(syms, ctx, kind):
    """Signatures name the offending symbol(s), not the whole input:
    - every symbol of the literal that already fails on its own as literal text gets its own signature;
    - otherwise the set of symbols whose replacement by a benign letter makes the failure disappear."""
    anch = anchor_positions(syms, ctx) if ctx != "wrap" else set()
    singles = [s for s in dict.fromkeys(syms) if fails_alone_as_literal(s)
               and not all(i in anch for i, x in enumerate(syms) if x == s)]
    if singles:
        return [f"C07:{hexs([s])}:as-literal" for s in singles]
    culprit = []
    for s in dict.fromkeys(syms):
        benign = "a" if s != "a" else "b"
        alt = [benign if x == s else x for x in syms]
        r = check_one(Stats(), alt, ctx)
        if r is None or r[0] != kind:
            culprit.append(s)
    if not culprit:
        culprit = list(dict.fromkeys(syms))
    roles = []
    for s in culprit:
        occ = [i for i, x in enumerate(syms) if x == s]
        roles.append("as-anchor" if all(i in anch for i in occ) else "as-literal")
    role = "as-anchor" if all(r == "as-anchor" for r in roles) else "as-literal"
    return [f"C07:{hexs(culprit)}:{role}"]


# literals spelled like regular-expression idioms (longer than the exhaustive length bound of the quick tier)
IDIOMS = ["{1}", "a{1}", "x{2}", "{1,2}", "a{,3}", "a{2,}", "(?:a)", "(?=a)", "(?!a)", "(?i)a", "(?P<x>a)", "(?#c)", "a*?", "a+?", "a??",
          ".*", ".+?", "a.b", "(a)", "(a|b)", "a{", "a}", "{}", "{a}", "a$b", "^^a", "a$$", "a^", "$a", "^$", "a**", "a++", "?a", "*a", "+a",
          "a-z", r"\[a-z\]", r"\[^a\]", r"x\[0-9\]+", "a&&b", "a~~b", "a#b", " a ", "a  b"]


def idiom_syms(text):
    out, i = [], 0
    while i < len(text):
        if text.startswith("\\[", i) or text.startswith("\\]", i):
            out.append(text[i : i + 2])
            i += 2
        else:
            out.append(text[i])
            i += 1
    return out


def bounds(tier, seed):
    n = 2 if tier == "quick" else 3
    return {
        "symbols": len(SYMS),
        "max_length": n,
        "literals": sum(len(SYMS) ** k for k in range(1, n + 1)),
        "long_literals_len40": len(SYMS) + len(SYMS) * (len(SYMS) - 1),
        "contexts": list(CONTEXTS),
        "cli_conformance": "grep + update for every single symbol in contexts pre/wrap",
        "regex_idiom_literals": len(IDIOMS),
    }


def explore(tier, seed):
    n = 2 if tier == "quick" else 3
    chunks = []
    firsts = list(range(len(SYMS)))
    for k in range(1, n + 1):
        if k == 1:
            chunks.append(("lits", 1, None))
        else:
            for f in firsts:
                chunks.append(("lits", k, f))
    chunks.append(("long", 0, None))
    chunks.append(("idioms", 0, None))
    for part in pool.split(list(range(len(SYMS))), 8):
        chunks.append(("cli", 0, part))
    return pool.run_chunks(run_chunk, chunks)


def run_chunk(chunk):
    kind, k, f = chunk
    st = Stats()
    if kind == "lits":
        if k == 1:
            space = [(s,) for s in SYMS]
        else:
            space = [(SYMS[f],) + rest for rest in itertools.product(SYMS, repeat=k - 1)]
        for syms in space:
            for ctx in CONTEXTS:
                judge(st, list(syms), ctx)
        if f in (None, 0):
            st.sample({"literal_symbols": list(space[-1]), "contexts": list(CONTEXTS), "pattern_wrap": build(list(space[-1]), "wrap")[0]})
    elif kind == "idioms":
        for text in IDIOMS:
            for ctx in CONTEXTS:
                judge(st, idiom_syms(text), ctx)
        st.sample({"regex_idiom_literals": IDIOMS[:8]})
    elif kind == "long":
        for a in SYMS:
            judge(st, [a] * 40, "pre")
            judge(st, [a] * 40, "wrap")
            for b in SYMS:
                if a != b:
                    judge(st, [a, b] * 20, "pre")
                    judge(st, [a, b] * 20, "suf")
    else:
        world.set_today(TODAY)
        for i in f:
            cli_conformance(st, SYMS[i])
    return st


def _cli_sig(sym, ctx):
    role = "as-anchor" if ctx != "wrap" and anchor_positions([sym], ctx) else "as-literal"
    return f"C07:{hexs([sym])}:{role}"


def _toml_str(s):
    return '"' + s.replace("\\", "\\\\").replace('"', '\\"') + '"'


def cli_conformance(st, sym):
    """grep and update through the CLI must agree with the reference on the probe lines of one symbol."""
    d = pool.fresh_dir("c07")
    os.chdir(d)
    for ctx in ("pre", "wrap"):
        built = build([sym], ctx)
        pat, ref, core, spans, render, anchors = built
        refrx = re.compile(ref)
        lines = probes(core, spans, anchors)
        # grep: one probe line per file, exit status tells whether the pattern was found
        for n, line in enumerate(lines):
            with open("probe.txt", "w", encoding="utf-8", newline="") as fh:
                fh.write(line + "\n")
            o = world.cli("grep", "--", pat, "probe.txt") if pat.startswith("-") else world.cli("grep", pat, "probe.txt")
            st.evaluations += 1
            want = refrx.search(line)
            found = o.exit == 0
            st.observe((sym, ctx, n, o.exit, o.crashed))
            if o.crashed:
                st.violation(_cli_sig(sym, ctx), {"syms": [sym], "ctx": ctx, "cli": "grep"}, {"kind": "grep-crash", "pattern": pat, "crashed": o.crashed})
                break
            if found != bool(want):
                st.violation(
                    _cli_sig(sym, ctx), {"syms": [sym], "ctx": ctx, "cli": "grep"},
                    {"kind": "grep", "pattern": pat, "line": line, "grep_found": found, "reference_found": bool(want)},
                )
                break
            st.validated += 1
        st.outcomes["cli-grep"] += 1
        # the matching line at every position of a longer file (first, middle, last): grep must find it there too
        for pos, (hit, final_nl) in itertools.product(range(3), ((lines[0], True), (core, True), (core, False))):
            other = ["XX nothing here XX", "XX still nothing XX"]
            body = other[:pos] + [hit] + other[pos:]
            with open("probe.txt", "w", encoding="utf-8", newline="") as fh:
                fh.write("\n".join(body) + ("\n" if final_nl else ""))
            o = world.cli("grep", "--", pat, "probe.txt") if pat.startswith("-") else world.cli("grep", pat, "probe.txt")
            st.evaluations += 1
            st.observe((sym, ctx, "pos", pos, hit == core, final_nl, o.exit, o.crashed))
            want = refrx.search(hit)
            if want and (o.exit != 0 or o.crashed) and not fails_alone_as_literal(sym):
                where = ("first", "middle", "last")[pos] + ("" if hit != core else ":text-fills-the-line") + ("" if final_nl else ":no-final-newline")
                st.violation(f"C07:grep-misses-matching-line:on-{where}-line-of-a-longer-file", {"syms": [sym], "ctx": ctx, "cli": "grep", "position": pos},
                             {"kind": "grep-position", "pattern": pat, "file": body, "exit": o.exit, "crashed": o.crashed})
            elif want:
                st.validated += 1
    # update: file pattern = <sym>{version}<sym-free tail>; only the exact line may be rewritten
    text = sym_text(sym)
    if sym in ("^",):
        os.chdir("/")
        return  # a leading ^ is an anchor: covered by the library-level contexts
    fpat = sym + "{version}"
    gpat = "{version}" + sym
    V = r"[0-9]+\.[0-9]+\.[0-9]+"
    frx = re.compile(re.escape(text) + V)
    grx = re.compile(V + ("$" if sym == "$" else re.escape(text)))
    gtext = "" if sym == "$" else text
    flines = ["XX " + text + "1.2.3 XX"] + ["XX " + c + "1.2.3 XX" for c in ("q", "7", "/") if c != text] + ["XX 1.2.3 XX"]
    flines += [text + "1.2.3 XX", "XX " + text + "1.2.3", text + "1.2.3"]  # at the very start / end of a line, alone on a line
    glines = ["YY 1.2.3" + gtext + " YY"] + ["YY 1.2.3" + c + " YY" for c in ("q", "7", "/") if c != gtext] + ["YY 1.2.3 YY"]
    glines += ["1.2.3" + gtext + " YY", "YY 1.2.3" + gtext, "1.2.3" + gtext]
    if sym == "$":
        glines = ["YY 1.2.3", "YY 1.2.3 YY", "1.2.3", "YY 1.2.3$ YY"]

    def wanted(lines, rx, before, after_):
        out = []
        for line in lines:
            m = rx.search(line)
            out.append(line[: m.start()] + before + "1.2.4" + after_ + line[m.end() :] if m else line)
        return out

    fbody, fwant = "\n".join(flines), "\n".join(wanted(flines, frx, text, ""))  # no final newline: the last line ends the file
    gbody, gwant = "\n".join(glines) + "\n", "\n".join(wanted(glines, grx, "", gtext)) + "\n"
    # h.txt: `v={version};` listed first, then a pattern whose literal text contains the symbol; its only occurrence stands BETWEEN two
    # occurrences of the first pattern on one line
    hpat = "lit" + sym + "lit {version}"
    htext = "lit" + text + "lit"
    hbody = f"v=1.2.3; {htext} 1.2.3 v=1.2.3;\nplain v=1.2.3;\n"
    hwant = f"v=1.2.4; {htext} 1.2.4 v=1.2.4;\nplain v=1.2.4;\n"
    cfg = (
        "[bumpver]\ncurrent_version = \"1.2.3\"\nversion_pattern = \"MAJOR.MINOR.PATCH\"\n\n"
        "[bumpver.file_patterns]\n\"bumpver.toml\" = ['current_version = \"{version}\"']\n"
        f"\"f.txt\" = [{_toml_str(fpat)}]\n"
        f"\"g.txt\" = [{_toml_str(gpat)}]\n"
        f"\"h.txt\" = [\"v={{version}};\", {_toml_str(hpat)}]\n"
    )
    world.clear_dir(".")
    world.write_tree({"bumpver.toml": cfg.encode(), "f.txt": fbody.encode(), "g.txt": gbody.encode(), "h.txt": hbody.encode()})
    import toml as _toml

    try:
        fps = _toml.loads(cfg)["bumpver"]["file_patterns"]
        ok_cfg = fps["f.txt"] == [fpat] and fps["g.txt"] == [gpat] and fps["h.txt"] == ["v={version};", hpat]
    except Exception:
        ok_cfg = False
    if not ok_cfg:
        # the vendored-in `toml` package cannot represent this string in an array: not a C07 matter
        st.counters["cli_update_skipped_toml_library_cannot_express_pattern"] += 1
        os.chdir("/")
        return
    o = world.cli("update", "--patch", "--no-fetch")
    st.evaluations += 1
    tree = world.read_tree(".")
    after, gafter = tree.get("f.txt", b"").decode("utf-8", "replace"), tree.get("g.txt", b"").decode("utf-8", "replace")
    hafter = tree.get("h.txt", b"").decode("utf-8", "replace")
    st.observe((sym, "update", o.exit, o.crashed, after, gafter, hafter))
    if (o.exit == 0 and after == fwant and gafter == gwant and hafter != hwant) or (o.exit != 0 and hpat in o.logtext()):
        st.violation(_cli_sig(sym, "pre"), {"syms": [sym], "ctx": "update", "cli": "update"},
                     {"kind": "update-literal-between-two-matches", "file_patterns": ["v={version};", hpat], "exit": o.exit, "h.txt": hafter, "h.txt expected": hwant, "log": o.log[-3:]})
    elif o.exit != 0 or after != fwant or gafter != gwant:
        which = "f.txt" if (o.exit != 0 or after != fwant) else "g.txt"
        st.violation(
            _cli_sig(sym, "pre" if which == "f.txt" else "suf"), {"syms": [sym], "ctx": "update", "cli": "update"},
            {"kind": "update", "file_patterns": [fpat, gpat], "exit": o.exit, "crashed": o.crashed, "f.txt": after, "f.txt expected": fwant,
             "g.txt": gafter, "g.txt expected": gwant, "log": o.log[-3:]},
        )
    else:
        st.validated += 1
    st.outcomes["cli-update"] += 1
    # the same file patterns given in setup.cfg (where the syntax can express them): same result
    def ini_ok(raw):
        return not raw.startswith(("#", ";", " ", "\t")) and not raw.endswith((" ", "\t"))

    ents = [(n, pat_) for n, pat_ in (("f.txt", fpat), ("g.txt", gpat)) if ini_ok(pat_)]
    if ents:
        ini = ("[bumpver]\ncurrent_version = 1.2.3\nversion_pattern = MAJOR.MINOR.PATCH\n\n[bumpver:file_patterns]\nsetup.cfg =\n    current_version = {version}\n"
               + "".join(f"{n} =\n    {pat_}\n" for n, pat_ in ents))
        world.clear_dir(".")
        world.write_tree({"setup.cfg": ini.encode(), "f.txt": fbody.encode(), "g.txt": gbody.encode()})
        o = world.cli("update", "--patch", "--no-fetch")
        st.evaluations += 1
        tree = world.read_tree(".")
        got = {"f.txt": tree.get("f.txt", b"").decode("utf-8", "replace"), "g.txt": tree.get("g.txt", b"").decode("utf-8", "replace")}
        exp = {"f.txt": fwant if ("f.txt", fpat) in ents else fbody, "g.txt": gwant if ("g.txt", gpat) in ents else gbody}
        st.observe((sym, "update-ini", o.exit, o.crashed, sorted(got.items())))
        if o.exit != 0 or got != exp:
            st.violation(
                _cli_sig(sym, "pre"), {"syms": [sym], "ctx": "update", "cli": "update", "config": "setup.cfg"},
                {"kind": "update-setup.cfg", "file_patterns": [e[1] for e in ents], "exit": o.exit, "crashed": o.crashed, "got": got, "expected": exp, "log": o.log[-3:]},
            )
        else:
            st.validated += 1
        st.outcomes["cli-update-setup.cfg"] += 1
    # k.txt: the symbol on BOTH sides of {version} (a pattern that starts and ends with the same quote character is still that text), through
    # both config formats; lines that carry the version bare or with the symbol on one side only must stay
    if sym != "$":
        kpat = sym + "{version}" + sym
        krx = re.compile(re.escape(text) + V + re.escape(text))
        klines = ["XX " + text + "1.2.3" + text + " XX", "XX 1.2.3 XX", "XX " + text + "1.2.3 XX", "XX 1.2.3" + text + " XX", text + "1.2.3" + text, "1.2.3"]
        kbody, kwant = "\n".join(klines) + "\n", "\n".join(wanted(klines, krx, text, text)) + "\n"
        configs = {"bumpver.toml": "[bumpver]\ncurrent_version = \"1.2.3\"\nversion_pattern = \"MAJOR.MINOR.PATCH\"\n\n[bumpver.file_patterns]\n"
                                   "\"bumpver.toml\" = ['current_version = \"{version}\"']\n" + f"\"k.txt\" = [{_toml_str(kpat)}]\n"}
        try:
            if _toml.loads(configs["bumpver.toml"])["bumpver"]["file_patterns"]["k.txt"] != [kpat]:
                del configs["bumpver.toml"]
        except Exception:
            del configs["bumpver.toml"]
        if ini_ok(kpat):
            configs["setup.cfg"] = ("[bumpver]\ncurrent_version = 1.2.3\nversion_pattern = MAJOR.MINOR.PATCH\n\n[bumpver:file_patterns]\nsetup.cfg =\n"
                                    "    current_version = {version}\nk.txt =\n    " + kpat + "\n")
        for cname, ctext in sorted(configs.items()):
            world.clear_dir(".")
            world.write_tree({cname: ctext.encode(), "k.txt": kbody.encode()})
            o = world.cli("update", "--patch", "--no-fetch")
            st.evaluations += 1
            kafter = world.read_tree(".").get("k.txt", b"").decode("utf-8", "replace")
            st.observe((sym, "update-both-sides", cname, o.exit, o.crashed, kafter))
            if o.exit != 0 or kafter != kwant:
                st.violation(_cli_sig(sym, "both"), {"syms": [sym], "ctx": "update", "cli": "update", "config": cname, "both_sides": True},
                             {"kind": "update-symbol-on-both-sides", "file_patterns": [kpat], "exit": o.exit, "crashed": o.crashed, "k.txt": kafter, "k.txt expected": kwant, "log": o.log[-3:]})
            else:
                st.validated += 1
            st.outcomes["cli-update-both-sides:" + cname] += 1
    os.chdir("/")


def replay(case, st):
    world.set_today(TODAY)
    if case.get("cli"):
        cli_conformance(st, case["syms"][0])
    else:
        judge(st, case["syms"], case["ctx"])
