"""C19 - `init` always produces a configuration that bumpver itself can use.

Space: every project directory over the recognised files (each config-capable file in one of
5 (quick) / 7 (thorough) content states (absent, empty, unrelated LF / CRLF / without final newline, section after unrelated content, section only), README.md / README.rst / setup.py present or not); from each
directory the history  init --dry ; init ; show ; edit-version ; show ; init  is executed on the
real CLI, every step observed.
"""
import datetime as dt
import itertools
import os

from .. import pool, world
from ..stats import Stats, h64

ID = "C19"
LEVEL = "model_checking"
MIN_OUTCOMES = 2
MANIFEST = {
    'text': 'Every project directory over the recognised files (5^5*8 quick, 7^5*8 thorough) is built (unrelated prior content includes [tool.*] tables in the dedicated TOML files, near-miss INI sections, colon-style INI keys, CRLF files) and the history (also as child processes under an ASCII locale with non-ASCII prior content) init --dry; init; show; edit; show; init; init --dry is executed on the real CLI with every step checked (also with each config-capable file being a symbolic link to a file outside or inside the project): complete enumeration of the stated finite space, so the property holds for all of it, not for a sample.',
    'note': 'clock pinned via bumpver.utils.now/version.TODAY; only top-level files; invalid existing sections not enumerated',
    'technique': 'explicit-state exploration: exhaustive enumeration of initial directory states x fixed operation history on the real CLI',
    'design_ref': 'DESIGN.md section 4, C19',
}
RULE = (
    "one case = one initial project directory (product of per-file content states); distinct = distinct "
    "initial directory; non-trivial = every case (each runs a 6-step history on the real CLI)"
)
ASSUMPTIONS = [
    "clock pinned through bumpver.utils.now / bumpver.version.TODAY (five days incl. days whose ISO year differs from the calendar year)",
    "files in sub-directories and sections that exist but are invalid are outside the enumerated space",
]

# the day `init` runs: mid-year, and days on which the ISO week-numbering year differs from the calendar year (30 Dec 2024 is in ISO
# 2025, 1 Jan 2027 in ISO 2026), the last and the first day of a year
DAYS = [dt.date(2031, 7, 15), dt.date(2024, 12, 30), dt.date(2027, 1, 1), dt.date(2031, 12, 31), dt.date(2032, 1, 1)]
CFG_FILES = ["pycalver.toml", "bumpver.toml", ".bumpver.toml", "pyproject.toml", "setup.cfg"]
OTHER_FILES = ["README.md", "README.rst", "setup.py"]

UNRELATED = {
    # (both INI delimiters, a continuation line, a value that contains the other delimiter, a key without value)
    "setup.cfg": "[metadata]\nname = demo\ndescription: colon style\nurl = https://example.invalid/x?a=b\nclassifiers =\n    Programming Language :: Python :: 3\n\n"
                 "[options]\nzip_safe = False\n\n[tool:pytest]\naddopts = -q\n\n[bumpversion]\ncommit = True\n",
    "pyproject.toml": '[build-system]\nrequires = ["setuptools"]\n\n[tool.black]\nline-length = 100\n',
    # dedicated files that already hold other tables, also below [tool] (where pyproject.toml keeps its bumpver section)
    "pycalver.toml": '[other]\nkey = "value"\n\n[tool.black]\nline-length = 100\n',
    "bumpver.toml": '[other]\nkey = "value"\n\n[tool.isort]\nprofile = "black"\n\n[project]\nname = "demo"\n',
    ".bumpver.toml": '[tool]\nkey = "value"\n',
}
VERSIONS = {
    "setup.cfg": "2011.1001",
    "pyproject.toml": "2012.1002-beta",
    "pycalver.toml": "2013.1003",
    "bumpver.toml": "2014.1004-rc",
    ".bumpver.toml": "2015.1005",
}
SECTION = {
    "setup.cfg": '[bumpver]\ncurrent_version = "{v}"\nversion_pattern = "YYYY.BUILD[-TAG]"\n',
    "pyproject.toml": '[tool.bumpver]\ncurrent_version = "{v}"\nversion_pattern = "YYYY.BUILD[-TAG]"\n',
    "pycalver.toml": '[pycalver]\ncurrent_version = "{v}"\nversion_pattern = "YYYY.BUILD[-TAG]"\n',
    "bumpver.toml": '[bumpver]\ncurrent_version = "{v}"\nversion_pattern = "YYYY.BUILD[-TAG]"\n',
    ".bumpver.toml": '[bumpver]\ncurrent_version = "{v}"\nversion_pattern = "YYYY.BUILD[-TAG]"\n',
}
# content states of a config-capable file
ABSENT, EMPTY, UNREL, SECT, UNREL_NONL, SECT_ONLY, UNREL_CRLF = range(7)
QUICK_STATES = (ABSENT, EMPTY, UNREL, SECT, UNREL_CRLF)
ALL_STATES = (ABSENT, EMPTY, UNREL, SECT, UNREL_NONL, SECT_ONLY, UNREL_CRLF)
CONFIGURED = (SECT, SECT_ONLY)


def content(fn, state):
    if state == ABSENT:
        return None
    if state == EMPTY:
        return ""
    if state == UNREL:
        return UNRELATED[fn]
    if state == UNREL_NONL:
        return UNRELATED[fn].rstrip("\n")
    if state == UNREL_CRLF:
        return UNRELATED[fn].replace("\n", "\r\n")
    sect = SECTION[fn].format(v=VERSIONS[fn])
    if state == SECT:
        return UNRELATED[fn] + "\n" + sect
    return sect


OTHER_CONTENT = {
    "README.md": "# Demo\n\nSome text.\n",
    "README.rst": "Demo\n====\n",
    "setup.py": 'import setuptools\nsetuptools.setup(name="demo", version="0.1")\n',
}


def bounds(tier, seed):
    n = len(QUICK_STATES) if tier == "quick" else len(ALL_STATES)
    return {
        "content_states_per_config_file": n,
        "directories": n ** 5 * 8,
        "history": ["init --dry", "init", "show", "edit current_version in the written file", "show", "init"],
    }


def all_cases(tier):
    states = QUICK_STATES if tier == "quick" else ALL_STATES
    return list(itertools.product(*([states] * 5 + [(0, 1)] * 3)))


def explore(tier, seed):
    cases = all_cases(tier)
    return pool.run_chunks(run_chunk, pool.split(cases, pool.NPROC * 4) + [["@locale"], ["@symlink"]])


def run_chunk(cases):
    st = Stats()
    if cases and cases[0] == "@locale":
        ascii_locale(st)
        return st
    if cases and cases[0] == "@symlink":
        symlinked(st)
        return st
    for case in cases:
        run_case(tuple(case), st)
    return st


def ascii_locale(st):
    """init / show / init as child processes under an ASCII locale (LC_ALL=C, UTF-8 mode off) in directories whose config-capable file
    already holds UTF-8 text that is not ASCII (an author's name, a copyright sign)."""
    import subprocess as sp
    import sys

    year = dt.datetime.now(dt.timezone.utc).year
    env = dict(os.environ, LC_ALL="C", LANG="C", PYTHONUTF8="0", PYTHONCOERCECLOCALE="0",
               PYTHONPATH=os.environ.get("BUMPVER_SRC", "/repo/src"), PYTHONDONTWRITEBYTECODE="1")

    def run(*argv):
        r = sp.run([sys.executable, "-m", "bumpver"] + list(argv), env=env, stdout=sp.PIPE, stderr=sp.PIPE)
        return r.returncode, r.stdout.decode("utf-8", "replace"), r.stderr.decode("utf-8", "replace")

    for fn in CFG_FILES + [None]:
        d = pool.fresh_dir("c19loc")
        os.chdir(d)
        prior = None
        if fn is not None:
            comment = "# maintained by Zo\u00eb M\u00fcller \u00a9 2031\n"
            prior = (comment + UNRELATED[fn]).encode("utf-8")
            world.write_tree({fn: prior})
        world.write_tree({"README.md": "# D\u00e9mo \u2713\n".encode("utf-8")})
        target = fn or "bumpver.toml"
        case = {"ascii_locale": True, "prior_file": fn}
        rc1, out1, err1 = run("init")
        after1 = world.read_tree(".")
        rc2, out2, err2 = run("show", "--no-fetch")
        rc3, out3, err3 = run("init")
        after3 = world.read_tree(".")
        st.evaluations += 3
        st.transitions += 3
        st.validated += 3
        st.state("ascii-locale", fn)
        st.nontriv("ascii-locale", fn)
        st.observe((fn, rc1, rc2, out2, rc3, sorted(after3.items())))
        problems = []
        if rc1 != 0 or target not in after1 or (prior is not None and not after1[target].startswith(prior)):
            problems.append(("init-failed-or-prior-content-not-kept", {"exit": rc1, "stderr": err1[-300:]}))
        elif rc2 != 0 or f"Current Version: {year}.1001-alpha" not in out2:
            problems.append(("show-after-init", {"exit": rc2, "stdout": out2, "stderr": err2[-300:]}))
        if rc1 == 0 and (rc3 == 0 or after3 != after1):
            problems.append(("second-init-accepted-or-wrote", {"exit": rc3, "changed": sorted(k for k in after3 if after3[k] != after1.get(k))}))
        for sig, detail in problems:
            st.outcomes["violation"] += 1
            st.violation(f"C19:ascii-locale:{sig}", case, detail)
        if not problems:
            st.outcomes["ascii-locale:init-show-init-ok"] += 1
    os.chdir("/")


def symlinked(st):
    """The config-capable file is a symbolic link to a file OUTSIDE the project directory (a configuration shared between the packages
    of a larger checkout), holding unrelated content / nothing / a bumpver section: the same history as for plain files."""
    today = DAYS[0]
    world.set_today(today)
    for fn in CFG_FILES:
        for state in (UNREL, EMPTY, SECT):
            for where in ("../shared/", "sub/"):  # the target outside the project / in a sub-directory of it (the control)
                base = pool.fresh_dir("c19sym")
                proj = os.path.join(base, "proj")
                os.makedirs(os.path.join(proj, "sub"))
                os.makedirs(os.path.join(base, "shared"))
                os.chdir(proj)
                prior = content(fn, state).encode()
                target = os.path.normpath(os.path.join(proj, where, fn))
                with open(target, "wb") as f:
                    f.write(prior)
                os.symlink(os.path.join(where, fn), fn)
                world.write_tree({"README.md": OTHER_CONTENT["README.md"].encode()})
                case = {"symlink": True, "file": fn, "state": state, "target": where}
                seq = []

                def step(*argv):
                    o = world.cli(*argv)
                    st.evaluations += 1
                    st.transitions += 1
                    st.validated += 1
                    with open(target, "rb") as f:
                        data = f.read()
                    seq.append((argv, o.exit, o.crashed, o.stdout, data, os.path.islink(fn)))
                    return o, data

                problems = []
                o, data = step("init", "--dry")
                if data != prior or o.crashed:
                    problems.append(("dry-init-wrote-or-crashed", {"crashed": o.crashed}))
                if state == SECT:
                    o, data = step("init")
                    if o.exit == 0 or data != prior:
                        problems.append(("init-accepted-or-wrote-in-configured-project", {"exit": o.exit, "crashed": o.crashed}))
                    o, data = step("show", "--no-fetch")
                    if o.exit != 0 or _current(o) != VERSIONS[fn]:
                        problems.append(("show-does-not-read-the-linked-config", {"exit": o.exit, "crashed": o.crashed, "shown": _current(o)}))
                else:
                    o, data = step("init")
                    if o.exit != 0 or not data.startswith(prior) or data == prior or not os.path.islink(fn):
                        problems.append(("init-failed-or-prior-content-not-kept", {"exit": o.exit, "crashed": o.crashed, "log": o.log[-2:], "still_a_link": os.path.islink(fn)}))
                    else:
                        written = data
                        o, data = step("show", "--no-fetch")
                        if o.exit != 0 or _current(o) != f"{today.year}.1001-alpha":
                            problems.append(("show-after-init", {"exit": o.exit, "crashed": o.crashed, "shown": _current(o)}))
                        o, data = step("init")
                        if o.exit == 0 or data != written:
                            problems.append(("second-init-accepted-or-wrote", {"exit": o.exit, "crashed": o.crashed}))
                st.state("symlink", fn, state, where)
                st.nontriv("symlink", fn, state, where)
                st.observe((fn, state, where, seq))
                for sig, detail in problems:
                    st.outcomes["violation"] += 1
                    st.violation(f"C19:config-is-a-symlink:{'outside' if where.startswith('..') else 'inside'}-the-project:{sig}", case, detail)
                if not problems:
                    st.outcomes["symlinked-config:history-ok"] += 1
    os.chdir("/")


def replay(case, st):
    if isinstance(case, dict) and case.get("ascii_locale"):
        ascii_locale(st)
        return
    if isinstance(case, dict) and case.get("symlink"):
        symlinked(st)
        return
    run_case(tuple(case), st)


def build(case):
    files = {}
    for fn, s in zip(CFG_FILES, case[:5]):
        c = content(fn, s)
        if c is not None:
            files[fn] = c.encode()  # (written as bytes: CRLF content stays CRLF)
    for fn, present in zip(OTHER_FILES, case[5:]):
        if present:
            files[fn] = OTHER_CONTENT[fn].encode()
    return files


def run_case(case, st):
    TODAY = DAYS[sum(case) % len(DAYS)]  # (every directory state has its day; all days occur for every kind of directory)
    world.set_today(TODAY)
    d = pool.fresh_dir("c19")
    os.chdir(d)
    files = build(case)
    world.write_tree(files)
    configured = [fn for fn, s in zip(CFG_FILES, case[:5]) if s in CONFIGURED]
    expect_init = f"{TODAY.year}.1001-alpha"
    obs_all = []

    def bad(sig, **detail):
        st.violation(f"C19:{sig}", list(case), dict(detail, files=sorted(files), configured=configured))

    def step(*argv):
        before = world.read_tree()
        o = world.cli(*argv)
        after = world.read_tree()
        st.evaluations += 1
        st.transitions += 1
        st.validated += 1
        st.state(sorted(after.items()))
        obs_all.append((argv, o.exit, o.crashed, o.stdout, after))
        return before, o, after

    st.state(sorted(files.items()))
    # 1. init --dry never writes
    before, o, after = step("init", "--dry")
    if after != before:
        bad("dry-init-wrote", exit=o.exit)
    if o.crashed:
        bad("crash:init --dry", crashed=o.crashed)
    if configured:
        if o.exit == 0:
            bad("dry-init-accepted-configured-project")
    elif o.exit != 0:
        bad("dry-init-failed", exit=o.exit, log=o.log)

    # 2. init
    before, o, after = step("init")
    if o.crashed:
        bad("crash:init", crashed=o.crashed)
    if configured:
        outcome = "refuse"
        if o.exit == 0:
            bad("init-accepted-configured-project")
        if after != before:
            bad("refused-init-wrote")
        _b, o2, _a = step("show")
        cur = _current(o2)
        if o2.exit != 0 or cur not in [VERSIONS[fn] for fn in configured]:
            bad("configured-file-not-preferred", exit=o2.exit, shown=cur, log=o2.log[-3:])
    else:
        outcome = "init"
        changed = [p for p in set(before) | set(after) if before.get(p) != after.get(p)]
        if o.exit != 0:
            bad("init-failed", exit=o.exit, log=o.log)
        elif len(changed) != 1:
            bad("init-changed-not-exactly-one-file", changed=sorted(changed))
        else:
            target = changed[0]
            outcome = "init:" + ("append:" if target in before else "create:") + target
            old, new = before.get(target, b""), after[target]
            if not new.startswith(old) or len(new) <= len(old):
                bad("prior-content-not-a-prefix", target=target)
            _b, o2, a2 = step("show")
            if o2.exit != 0 or _current(o2) != expect_init:
                bad("show-after-init", exit=o2.exit, shown=_current(o2), crashed=o2.crashed, log=o2.log[-3:])
            if a2 != after:
                bad("show-wrote")
            # show must read the file init wrote: edit the version there, show again
            edited = new[: len(old)] + new[len(old) :].replace(b".1001-alpha", b".1234-beta")
            with open(target, "wb") as f:
                f.write(edited)
            _b, o3, _a = step("show")
            if o3.exit != 0 or _current(o3) != f"{TODAY.year}.1234-beta":
                bad("show-reads-another-file", target=target, exit=o3.exit, shown=_current(o3))
            with open(target, "wb") as f:
                f.write(new)
            # 3. second init refuses and changes nothing
            b4, o4, a4 = step("init")
            if o4.exit == 0:
                bad("second-init-accepted")
            if a4 != b4:
                bad("second-init-wrote")
            _b, o5, a5 = step("init", "--dry")
            if o5.exit == 0 or a5 != a4:
                bad("dry-init-after-init", exit=o5.exit)
    st.outcomes[outcome] += 1
    st.nontriv(case)
    st.observe(obs_all)
    if sum(case) in (0, 9) or case == (3, 2, 0, 1, 6, 1, 0, 1):
        st.sample({"case": list(case), "files": sorted(files), "outcome": outcome,
                   "steps": [[list(a), e] for (a, e, _c, _s, _t) in obs_all]})
    os.chdir("/")


def _current(o):
    for line in o.stdout.splitlines():
        if line.startswith("Current Version: "):
            return line[len("Current Version: "):]
    return None
