import json, sys
T = open('/tmp/prompts/template.txt').read()
props = {json.loads(l)['id']: json.loads(l) for l in open('/verif/properties.jsonl')}
for arg in sys.argv[1:]:
    pid, suffix = arg.split('-')
    p = props[pid]
    text = f"{pid}: {p['title']}.\nStatement: {p['statement']}\nQuantification: {p['quantifier']['text']}."
    extra = open(f'/tmp/prompts/extra-{arg}.txt').read() if __import__('os').path.exists(f'/tmp/prompts/extra-{arg}.txt') else ''
    open(f'/tmp/prompts/prompt-{arg}.txt','w').write(T.replace('@ID@', arg).replace('@PROP@', text).replace('@EXTRA@', extra))
