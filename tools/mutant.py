#!/venv/bin/python
"""Try a property-breaking patch: scratch copy of /repo, pinned suite, then checks against the copy.

usage: tools/mutant.py PATCH [--checks C03,C04] [--tier quick] [--no-tests] [--seeds 1,7]
Prints one summary line; exit 0 iff (suite still passes what it passed) and every listed check reports a VIOLATION
on every seed.  The scratch copy lives outside /repo and /verif and is removed at the end.
"""
import argparse
import json
import os
import shutil
import subprocess as sp
import sys
import tempfile
import xml.etree.ElementTree as ET

ROOT = os.path.dirname(os.path.dirname(os.path.abspath(__file__)))


def run_suite(scratch):
    junit = os.path.join(scratch, "_junit.xml")
    env = dict(os.environ, PYTHONPATH=os.path.join(scratch, "src"), PYTHONDONTWRITEBYTECODE="1")
    cmd = [
        "/venv/bin/python", "-m", "pytest", "-q", "-p", "no:cacheprovider", "--timeout=900",
        "--continue-on-collection-errors", f"--junitxml={junit}", "-x" if False else "-q",
    ]
    p = sp.run(cmd, cwd=scratch, env=env, stdout=sp.PIPE, stderr=sp.STDOUT, text=True)
    passed = set()
    if os.path.exists(junit):
        for tc in ET.parse(junit).getroot().iter("testcase"):
            if not any(ch.tag in ("failure", "error", "skipped") for ch in tc):
                passed.add(f"{tc.get('classname')}::{tc.get('name')}")
    return passed, p.stdout[-1500:]


def clean_baseline():
    """Passing set of the unmutated current tree (cached per tree state; test ids carry today's date)."""
    import hashlib
    head = sp.run(["git", "-C", "/repo", "rev-parse", "HEAD"], stdout=sp.PIPE, text=True).stdout.strip()
    diff = sp.run(["git", "-C", "/repo", "diff", "HEAD", "--", "src", "test"], stdout=sp.PIPE).stdout
    import datetime
    key = hashlib.sha1(head.encode() + diff + datetime.date.today().isoformat().encode()).hexdigest()[:12]
    cache = f"/dev/shm/bvmut-baseline-{key}.json"
    if os.path.exists(cache):
        return set(json.load(open(cache)))
    scratch = tempfile.mkdtemp(prefix="bvmut-base-", dir="/dev/shm")
    try:
        sp.run("git -C /repo archive HEAD | tar -x -C " + scratch, shell=True, check=True)
        if diff.strip():
            sp.run(["patch", "-p1", "-s", "-d", scratch], input=diff, check=True)
        passed, _ = run_suite(scratch)
    finally:
        shutil.rmtree(scratch, ignore_errors=True)
    json.dump(sorted(passed), open(cache, "w"))
    return passed


def main():
    ap = argparse.ArgumentParser()
    ap.add_argument("patch")
    ap.add_argument("--checks", default="")
    ap.add_argument("--tier", default="quick")
    ap.add_argument("--no-tests", action="store_true")
    ap.add_argument("--seeds", default="1,7")
    ap.add_argument("--keep", action="store_true")
    a = ap.parse_args()
    scratch = tempfile.mkdtemp(prefix="bvmut-", dir="/dev/shm" if os.path.isdir("/dev/shm") else None)
    ok = True
    try:
        sp.run(["git", "-C", "/repo", "worktree", "prune"], check=False)
        sp.run("git -C /repo archive HEAD | tar -x -C " + scratch, shell=True, check=True)
        # working-tree state of /repo (uncommitted fix candidates are part of 'the current tree')
        diff = sp.run(["git", "-C", "/repo", "diff", "HEAD", "--", "src", "test"], stdout=sp.PIPE, check=True).stdout
        if diff.strip():
            sp.run(["patch", "-p1", "-s", "-d", scratch], input=diff, check=True)
        r = sp.run(["patch", "-p1", "-s", "-d", scratch, "-i", os.path.abspath(a.patch)], stdout=sp.PIPE, stderr=sp.STDOUT, text=True)
        if r.returncode != 0:
            print("PATCH-FAILED", r.stdout)
            return 2
        if not a.no_tests:
            base = clean_baseline()
            passed, tail = run_suite(scratch)
            missing = sorted(base - passed)
            print(f"suite: clean tree passes {len(base)}, mutant passes {len(passed)}")
            if missing:
                ok = False
                print(f"SUITE-KILLS-MUTANT: {len(missing)} baseline tests no longer pass, e.g. {missing[:5]}")
            else:
                print("suite: all baseline-passing tests still pass")
        for cid in [c for c in a.checks.split(",") if c]:
            for seed in a.seeds.split(","):
                env = dict(os.environ, BUMPVER_SRC=os.path.join(scratch, "src"), VERIF_SEED=seed)
                p = sp.run([os.path.join(ROOT, "check"), cid, a.tier], env=env, stdout=sp.PIPE, stderr=sp.STDOUT, text=True)
                viol = [l for l in p.stdout.splitlines() if l.startswith("VIOLATION")]
                sigs = [l.strip() for l in p.stdout.splitlines() if l.startswith("  violation ")]
                status = "DETECTED" if (p.returncode == 1 and viol) else ("HARNESS-ERROR" if p.returncode == 2 else "MISSED")
                if status != "DETECTED":
                    ok = False
                print(f"{cid} seed={seed}: {status} exit={p.returncode} {len(viol)} violation(s)")
                for s in sigs[:6]:
                    print("   ", s[:220])
                if status == "HARNESS-ERROR":
                    print(p.stdout[-1500:])
    finally:
        if not a.keep:
            shutil.rmtree(scratch, ignore_errors=True)
        else:
            print("kept", scratch)
    print("RESULT", "OK" if ok else "NOT-OK", os.path.basename(a.patch))
    return 0 if ok else 1


if __name__ == "__main__":
    sys.exit(main())
