#!/venv/bin/python
"""Try a property-breaking patch: scratch copy of /repo, pinned suite, then checks against the copy.

usage: tools/mutant.py PATCH [--checks C03,C04] [--tier quick] [--no-tests] [--seeds 1,7]
Prints one summary line; exit 0 iff (suite still passes what it passed) and every listed check reports a VIOLATION
on every seed.  The scratch copy lives outside /repo and /verif and is removed at the end.
"""
import argparse
import json
import os
import shutil
import subprocess as sp
import sys
import tempfile
import xml.etree.ElementTree as ET

ROOT = os.path.dirname(os.path.dirname(os.path.abspath(__file__)))


def run_suite(scratch):
    junit = os.path.join(scratch, "_junit.xml")
    env = dict(os.environ, PYTHONPATH=os.path.join(scratch, "src"), PYTHONDONTWRITEBYTECODE="1")
    cmd = [
        "/venv/bin/python", "-m", "pytest", "-q", "-p", "no:cacheprovider", "--timeout=900",
        "--continue-on-collection-errors", f"--junitxml={junit}", "-x" if False else "-q",
    ]
    p = sp.run(cmd, cwd=scratch, env=env, stdout=sp.PIPE, stderr=sp.STDOUT, text=True)
    passed = set()
    if os.path.exists(junit):
        for tc in ET.parse(junit).getroot().iter("testcase"):
            if not any(ch.tag in ("failure", "error", "skipped") for ch in tc):
                passed.add(f"{tc.get('classname')}::{tc.get('name')}")
    return passed, p.stdout[-1500:]


def clean_baseline():
    """Passing set of the unmutated current tree (cached per tree state; test ids carry today's date)."""
    import hashlib
    head = sp.run(["git", "-C", "/repo", "rev-parse", "HEAD"], stdout=sp.PIPE, text=True).stdout.strip()
    diff = sp.run(["git", "-C", "/repo", "diff", "HEAD", "--", "src", "test"], stdout=sp.PIPE).stdout
    import datetime
    key = hashlib.sha1(head.encode() + diff + datetime.date.today().isoformat().encode()).hexdigest()[:12]
    cache = f"/dev/shm/bvmut-baseline-{key}.json"
    if os.path.exists(cache):
        return set(json.load(open(cache)))
    scratch = tempfile.mkdtemp(prefix="bvmut-base-", dir="/dev/shm")
    try:
        sp.run("git -C /repo archive HEAD | tar -x -C " + scratch, shell=True, check=True)
        if diff.strip():
            sp.run(["patch", "-p1", "-s", "-d", scratch], input=diff, check=True)
        passed, _ = run_suite(scratch)
    finally:
        shutil.rmtree(scratch, ignore_errors=True)
    json.dump(sorted(passed), open(cache, "w"))
    return passed


def main():
    ap = argparse.ArgumentParser()
    ap.add_argument("patch")
    ap.add_argument("--checks", default="")
    ap.add_argument("--tier", default="quick")
    ap.add_argument("--no-tests", action="store_true")
    ap.add_argument("--seeds", default="1,7")
    ap.add_argument("--keep", action="store_true")
    ap.add_argument("--demo", default=None, help="pytest file that must fail on the mutant and pass on the clean tree")
    ap.add_argument("--save", default=None, help="seeded/<name>: store patch, demo, meta.json when everything is confirmed")
    ap.add_argument("--needs", default="", help="what the change needs to manifest (for meta.json)")
    ap.add_argument("--property", default="")
    a = ap.parse_args()
    scratch = tempfile.mkdtemp(prefix="bvmut-", dir="/dev/shm" if os.path.isdir("/dev/shm") else None)
    ok = True
    try:
        sp.run(["git", "-C", "/repo", "worktree", "prune"], check=False)
        sp.run("git -C /repo archive HEAD | tar -x -C " + scratch, shell=True, check=True)
        # working-tree state of /repo (uncommitted fix candidates are part of 'the current tree')
        diff = sp.run(["git", "-C", "/repo", "diff", "HEAD", "--", "src", "test"], stdout=sp.PIPE, check=True).stdout
        if diff.strip():
            sp.run(["patch", "-p1", "-s", "-d", scratch], input=diff, check=True)
        r = sp.run(["patch", "-p1", "-s", "-d", scratch, "-i", os.path.abspath(a.patch)], stdout=sp.PIPE, stderr=sp.STDOUT, text=True)
        if r.returncode != 0:
            print("PATCH-FAILED", r.stdout)
            return 2
        if not a.no_tests:
            base = clean_baseline()
            passed, tail = run_suite(scratch)
            missing = sorted(base - passed)
            print(f"suite: clean tree passes {len(base)}, mutant passes {len(passed)}")
            if missing:
                ok = False
                print(f"SUITE-KILLS-MUTANT: {len(missing)} baseline tests no longer pass, e.g. {missing[:5]}")
            else:
                print("suite: all baseline-passing tests still pass")
        demo_result = None
        if a.demo:
            def run_demo(tree):
                env = dict(os.environ, PYTHONPATH=os.path.join(tree, "src"), PYTHONDONTWRITEBYTECODE="1")
                env.pop("BUMPVER_SRC", None)
                q = sp.run(["/venv/bin/python", "-m", "pytest", "-q", "-p", "no:cacheprovider", "-x", os.path.abspath(a.demo)],
                           cwd=tempfile.gettempdir(), env=env, stdout=sp.PIPE, stderr=sp.STDOUT, text=True)
                return q.returncode
            clean = tempfile.mkdtemp(prefix="bvmut-clean-", dir="/dev/shm")
            try:
                sp.run("git -C /repo archive HEAD | tar -x -C " + clean, shell=True, check=True)
                if diff.strip():
                    sp.run(["patch", "-p1", "-s", "-d", clean], input=diff, check=True)
                rc_clean = run_demo(clean)
            finally:
                shutil.rmtree(clean, ignore_errors=True)
            rc_mut = run_demo(scratch)
            demo_result = {"clean_tree_rc": rc_clean, "mutant_rc": rc_mut}
            print(f"demo: clean tree rc={rc_clean} (want 0), mutant rc={rc_mut} (want != 0)")
            if rc_clean != 0 or rc_mut == 0:
                ok = False
        detected = {}
        for cid in [c for c in a.checks.split(",") if c]:
            for seed in a.seeds.split(","):
                env = dict(os.environ, BUMPVER_SRC=os.path.join(scratch, "src"), VERIF_SEED=seed)
                p = sp.run([os.path.join(ROOT, "check"), cid, a.tier], env=env, stdout=sp.PIPE, stderr=sp.STDOUT, text=True)
                viol = [l for l in p.stdout.splitlines() if l.startswith("VIOLATION")]
                sigs = [l.strip() for l in p.stdout.splitlines() if l.startswith("  violation ")]
                status = "DETECTED" if (p.returncode == 1 and viol) else ("HARNESS-ERROR" if p.returncode == 2 else "MISSED")
                detected.setdefault(cid, []).append({"seed": seed, "status": status, "signatures": [x.split(":", 1)[0].replace("violation ", "").strip() + ":" + x.split(":", 2)[1] if x.count(":") > 1 else x for x in sigs[:8]]})
                if status != "DETECTED":
                    ok = False
                print(f"{cid} seed={seed}: {status} exit={p.returncode} {len(viol)} violation(s)")
                for s in sigs[:6]:
                    print("   ", s[:220])
                if status == "HARNESS-ERROR":
                    print(p.stdout[-1500:])
        if a.save:
            dst = os.path.join(ROOT, "seeded", a.save)
            os.makedirs(dst, exist_ok=True)
            shutil.copy(a.patch, os.path.join(dst, "patch.diff"))
            if a.demo:
                shutil.copy(a.demo, os.path.join(dst, os.path.basename(a.demo)))
            note = os.path.join(os.path.dirname(os.path.abspath(a.patch)), "note.md")
            if os.path.exists(note):
                shutil.copy(note, os.path.join(dst, "note.md"))
            meta = {
                "property": a.property or a.checks,
                "needs_to_manifest": a.needs,
                "suite": "pinned suite run in a scratch copy with PYTHONPATH=<copy>/src: every test that passes on the clean tree still passes" if not a.no_tests else "not run",
                "demo": demo_result,
                "checks_run": detected,
                "confirmed": ok,
                "source": "independent sub-agent given only the property text" if "/tmp/out-" in os.path.abspath(a.patch) else "written by hand",
            }
            json.dump(meta, open(os.path.join(dst, "meta.json"), "w"), indent=1)
            print("saved", dst)
    finally:
        if not a.keep:
            shutil.rmtree(scratch, ignore_errors=True)
        else:
            print("kept", scratch)
    print("RESULT", "OK" if ok else "NOT-OK", os.path.basename(a.patch))
    return 0 if ok else 1


if __name__ == "__main__":
    sys.exit(main())
