#!/bin/sh
# usage: tools/benign_sweep.sh [seed] [tier]  - every check against every property-preserving control patch under benign/;
# all of them must stay silent (exit 0, no VIOLATION line).  Scratch copies live under /dev/shm and are removed.
cd "$(dirname "$0")/.." || exit 2
rc=0
for p in benign/*.patch; do
  d=$(mktemp -d /dev/shm/bvbenign-XXXXXX)
  git -C /repo archive HEAD | tar -x -C "$d"
  (cd "$d" && patch -p1 -s < "/verif/$p") || { echo "$p does not apply"; rm -rf "$d"; rc=2; continue; }
  echo "== $p"
  BUMPVER_SRC="$d/src" tools/seed_sweep.sh "${1:-3}" "${2:-quick}" | awk '{ if ($3 != "exit=0" || $5 != "0") { print "ALARM", $0; bad=1 } else n++ } END { print n " checks silent"; exit bad }' || rc=1
  rm -rf "$d"
done
exit $rc
