#!/venv/bin/python
"""setm.py cNN 'old fragment' 'new fragment'  - replace a fragment inside the MANIFEST['text'] of mc/checks/cNN.py
(the dict is re-written with one repr() per key, so texts split over several literals are handled)."""
import re
import sys


def setm(mod, old, new, key="text"):
    path = f"/verif/mc/checks/{mod}.py"
    s = open(path).read()
    m = re.search(r"^MANIFEST = \{\n.*?^\}\n", s, flags=re.S | re.M)
    ns = {}
    exec(m.group(0), ns)
    d = ns["MANIFEST"]
    assert old in d[key], (mod, old[:50])
    d[key] = d[key].replace(old, new, 1)
    block = "MANIFEST = {\n" + "".join(f"    {k!r}: {v!r},\n" for k, v in d.items()) + "}\n"
    open(path, "w").write(s[: m.start()] + block + s[m.end():])


if __name__ == "__main__":
    setm(*sys.argv[1:4])
