#!/bin/sh
# usage: tools/seed_sweep.sh "1 2 5 7" [quick]   - every check, every seed, one summary line each
cd "$(dirname "$0")/.." || exit 2
for seed in ${1:-1 7}; do
  for c in C01 C02 C03 C04 C05 C06 C07 C08 C09 C10 C11 C12 C13 C14 C15 C16 C17 C18 C19 C20; do
    out=$(VERIF_SEED=$seed ./check $c ${2:-quick} 2>&1); rc=$?
    echo "seed=$seed $c exit=$rc $(echo "$out" | grep -E '^C[0-9]+ tier' | sed 's/.*wall=/wall=/; s/ src.*//') $(echo "$out" | grep -cE '^VIOLATION') violations $(echo "$out" | grep -cE '^KNOWN-FINDING') known $(echo "$out" | grep -E 'HARNESS' | head -1)"
  done
done
