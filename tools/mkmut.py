#!/venv/bin/python
"""mkmut.py NAME FILE 'old' 'new'  -> mutants/NAME.patch (exact single replacement in /repo/FILE, as a -p1 patch)"""
import difflib, sys
name, path, old, new = sys.argv[1:5]
src = open("/repo/" + path).read()
assert src.count(old) == 1, f"{src.count(old)} occurrences"
out = src.replace(old, new)
d = difflib.unified_diff(src.splitlines(True), out.splitlines(True), "a/" + path, "b/" + path)
open(f"/verif/mutants/{name}.patch", "w").write("".join(d))
print("wrote", name)
