#!/venv/bin/python
"""Regenerates MANIFEST.json from the check modules present under mc/checks (run from /verif)."""
import ast
import json
import os
import sys

ROOT = os.path.dirname(os.path.dirname(os.path.abspath(__file__)))
PENDING_REASON = "check not built yet in this round (in progress; the design in DESIGN.md section 4 applies)"


def module_meta(path):
    tree = ast.parse(open(path).read())
    meta = {}
    for node in tree.body:
        if isinstance(node, ast.Assign) and len(node.targets) == 1 and isinstance(node.targets[0], ast.Name):
            name = node.targets[0].id
            if name in ("ID", "LEVEL", "MANIFEST"):
                meta[name] = ast.literal_eval(node.value)
    return meta


def main():
    props = [json.loads(l) for l in open(os.path.join(ROOT, "properties.jsonl"))]
    checks, na = [], []
    for p in props:
        pid = p["id"]
        path = os.path.join(ROOT, "mc", "checks", pid.lower() + ".py")
        if not os.path.exists(path):
            na.append({"property_id": pid, "reason": PENDING_REASON})
            continue
        m = module_meta(path)
        mf = m.get("MANIFEST", {})
        checks.append(
            {
                "property_id": pid,
                "quick_cmd": f"./check {pid} quick",
                "thorough_cmd": f"./check {pid} thorough",
                "evidence_file": f"evidence/{pid}.json",
                "replay_cmd_template": f"./check {pid} quick --replay {{path}}",
                "engine": "mc",
                "level_claimed": {
                    "category": m.get("LEVEL", "model_checking"),
                    "text": mf.get("text", ""),
                    "design_ref": mf.get("design_ref", f"DESIGN.md section 4, {pid}"),
                },
                "level_note": mf.get("note", ""),
                "technique": mf.get("technique", "explicit-state bounded exhaustive exploration of the implementation"),
            }
        )
    doc = {
        "version": 1,
        "setup_cmd": "/venv/bin/python -c \"import sys; sys.path.insert(0, '/repo/src'); import bumpver, packaging, click, toml, lexid\" && chmod +x check",
        "hooks": {
            "guard": "BUMPVER_VERIF",
            "enable": "no source hooks are needed: checks import /repo/src (or $BUMPVER_SRC) in a fresh interpreter and own clock, subprocess seam, cwd and logging from outside",
            "baseline_off_cmd": "cd /repo && /venv/bin/python -m pytest -ra -q -p no:cacheprovider --timeout=900 --continue-on-collection-errors",
            "source_commits": [],
            "add_only": True,
        },
        "engines": [
            {
                "name": "mc",
                "path": "mc/",
                "serves_properties": [c["property_id"] for c in checks],
                "kind_free_text": "hand-written explicit-state / bounded exhaustive explorer in Python running the real bumpver code "
                "(fork pool, state hashing, reference models in mc/ref, fake VCS at the subprocess seam, real git worlds)",
            }
        ],
        "checks": checks,
        "not_applicable": na,
        "notes": "All checks: ./check <ID> quick|thorough [--replay FILE]. Known findings: known_findings.json. Seeded breaking changes: seeded/.",
    }
    with open(os.path.join(ROOT, "MANIFEST.json"), "w") as f:
        json.dump(doc, f, indent=1)
        f.write("\n")
    print(f"MANIFEST.json: {len(checks)} checks, {len(na)} not_applicable")


if __name__ == "__main__":
    sys.exit(main())
