#!/venv/bin/python
"""Re-validate every stored property-breaking change against the current checks.

usage: tools/seeded_sweep.py [--seed 5] [--only C03-a,C04-b] [--jobs 4]
For each seeded/<id>/ (patch.diff + meta.json) and each mutants/<name>.patch: scratch copy of /repo with the patch applied, the
checks that meta.json lists as having detected it (for mutants: the check named by the file name) are run with BUMPVER_SRC pointing
at the copy; every one of them must report a VIOLATION.  Prints one line per (change, check); exit 1 if any is MISSED.
"""
import argparse
import concurrent.futures as cf
import json
import os
import shutil
import subprocess as sp
import tempfile

ROOT = os.path.dirname(os.path.dirname(os.path.abspath(__file__)))


def jobs_list(only):
    out = []
    for name in sorted(os.listdir(os.path.join(ROOT, "seeded"))):
        d = os.path.join(ROOT, "seeded", name)
        meta = json.load(open(os.path.join(d, "meta.json")))
        if meta.get("neutralised") or "neutralised" in str(meta.get("confirmed", "")):
            continue
        checks = [c for c, runs in meta.get("checks_run", {}).items() if isinstance(runs, list) and all(r["status"] == "DETECTED" for r in runs)]
        if checks and (not only or name in only):
            out.append((name, os.path.join(d, "patch.diff"), checks))
    for fn in sorted(os.listdir(os.path.join(ROOT, "mutants"))):
        name = fn[:-6]
        if not only or name in only:
            out.append((name, os.path.join(ROOT, "mutants", fn), [name.split("-")[0].upper()]))
    return out


def one(job, seed):
    name, patch, checks = job
    scratch = tempfile.mkdtemp(prefix="bvseeded-", dir="/dev/shm")
    res = []
    try:
        sp.run("git -C /repo archive HEAD | tar -x -C " + scratch, shell=True, check=True)
        p = sp.run(["patch", "-p1", "-s", "-d", scratch, "-i", patch], stdout=sp.PIPE, stderr=sp.STDOUT, text=True)
        if p.returncode != 0:
            return [(name, "-", "PATCH-DOES-NOT-APPLY")]
        env = dict(os.environ, BUMPVER_SRC=os.path.join(scratch, "src"), VERIF_SEED=str(seed))
        for c in checks:
            r = sp.run([os.path.join(ROOT, "check"), c, "quick"], env=env, stdout=sp.PIPE, stderr=sp.STDOUT, text=True)
            viol = "VIOLATION property=" in r.stdout
            res.append((name, c, "DETECTED" if (r.returncode == 1 and viol) else f"MISSED(exit={r.returncode})"))
    finally:
        shutil.rmtree(scratch, ignore_errors=True)
    return res


def main():
    ap = argparse.ArgumentParser()
    ap.add_argument("--seed", default="5")
    ap.add_argument("--only", default="")
    ap.add_argument("--jobs", type=int, default=3)
    a = ap.parse_args()
    only = set(x for x in a.only.split(",") if x)
    bad = 0
    with cf.ThreadPoolExecutor(a.jobs) as ex:
        for res in ex.map(lambda j: one(j, a.seed), jobs_list(only)):
            for name, c, status in res:
                print(f"{name:32s} {c:4s} {status}", flush=True)
                bad += status != "DETECTED"
    print(f"{'ALL DETECTED' if not bad else str(bad) + ' NOT DETECTED'}")
    return 1 if bad else 0


if __name__ == "__main__":
    raise SystemExit(main())
